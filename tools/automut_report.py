#!/usr/bin/env python3
"""automut_report.py <automut.jsonl> <engine.rs the run mutated> <classification.json> > automutants.md
classification.json: {"<mutant id>": "<class>: <reason>", ...} written by hand for the survivors."""
import json, sys, collections, re
rs = [json.loads(l) for l in open(sys.argv[1])]
src = open(sys.argv[2]).read().split('\n')
cls = json.load(open(sys.argv[3])) if len(sys.argv) > 3 else {}
def fn_of(line):
    for i in range(line - 1, 0, -1):
        l = src[i]
        m = re.match(r'\s*(pub(\(crate\))? )?fn (\w+)', l)
        if m: return m.group(3)
        if l.startswith('macro_rules!'): return l.split()[1].rstrip('{ ')
    return '?'
for r in rs:
    if r['status'] == 'scan-crashed' and 'SCAN KILLED' in r.get('detail', ''):
        r['status'] = 'killed-by-checks'
        m = re.search(r'scenarios: (.*?) ::', r['detail'], re.S)
        r['signature'] = (m.group(1) if m else '?').replace('\n', ' ')[:120]
c = collections.Counter(r['status'] for r in rs)
print("# Systematic mutants of src/engine.rs (tools/automutate.py)\n")
print("One-token mutants; a mutant counts only if it compiles and the repository's 74 tests still pass;")
print("those are decided by `ppgcheck scan` (all oracles of all properties, union of all profiles, stops at the first violation).\n")
print("| outcome | mutants |\n|---|---|")
for k, v in sorted(c.items(), key=lambda x: -x[1]): print("| %s | %d |" % (k, v))
counted = [r for r in rs if r['status'] in ('killed-by-checks', 'SURVIVED') or r['status'].startswith('scan')]
killed = [r for r in counted if r['status'] == 'killed-by-checks']
print("\nOf the %d mutants that the repository's tests do not notice, the checks report %d (%.0f%%).\n" % (len(counted), len(killed), 100.0 * len(killed) / max(1, len(counted))))
byprop = collections.Counter((r.get('signature') or '?')[:3] for r in killed)
print("First violation reported, by property: " + ", ".join("%s %d" % kv for kv in sorted(byprop.items())) + "\n")
print("## Survivors\n\n| id | operator | line | function | change | classification |\n|---|---|---|---|---|---|")
ccount = collections.Counter()
for r in rs:
    if r['status'] == 'SURVIVED' or r['status'].startswith('scan-'):
        k = cls.get(r['id'], 'UNCLASSIFIED')
        ccount[k.split(':')[0]] += 1
        chg = "`%s` => `%s`" % (r['old'][:70].replace('|', '\\|'), (r['new'] or 'DELETED')[:70].replace('|', '\\|'))
        print("| %s | %s | %d | %s | %s | %s |" % (r['id'], r['op'], r['line'], fn_of(r['line']), chg, k))
print("\nSurvivors by class: " + ", ".join("%s %d" % kv for kv in ccount.most_common()))
