#!/usr/bin/env python3
"""Hand-made mutants of /repo/src/engine.rs (DESIGN.md 3.7): writes seeded/hand/<name>.diff.
Each entry: (name, property it is aimed at, old text, new text). Texts must match exactly once."""
import difflib, sys, os
src = open('/repo/src/engine.rs').read()
M = []
def m(name, prop, old, new):
    M.append((name, prop, old, new))

m("C04-no-pruning-of-leaf-ephemerals", "C04",
  "    fn prune_leaf_ephemerals(&mut self) {\n",
  "    fn prune_leaf_ephemerals(&mut self) {\n        if self.jobs.len() > 2 {\n            return;\n        }\n")
m("C08-input-list-of-failed-job-kept", "C08",
  "                    out.remove(&job.job_id);\n                    out.remove(&input_name_key);\n",
  "                    out.remove(&job.job_id);\n")
m("C18-records-into-absent-downstream-dropped", "C18",
  "                                } else {\n                                    true\n                                }\n                            }\n                        }\n                    } else {\n                        // a node uplink entry.",
  "                                } else {\n                                    node_idx_b.is_some()\n                                }\n                            }\n                        }\n                    } else {\n                        // a node uplink entry.")
m("C20-cleanup-ack-accepted-twice", "C20",
  "            JobState::Ephemeral(JobStateEphemeral::FinishedSuccessReadyForCleanup) => {\n                self.signals\n                    .push_back(NewSignal!(SignalKind::JobCleanedUp, idx, self.jobs));",
  "            JobState::Ephemeral(JobStateEphemeral::FinishedSuccessReadyForCleanup)\n            | JobState::Ephemeral(JobStateEphemeral::FinishedSuccessCleanedUp) => {\n                self.jobs_ready_for_cleanup.remove(job_id);\n                if j.state == JobState::Ephemeral(JobStateEphemeral::FinishedSuccessCleanedUp) {\n                    return Ok(());\n                }\n                self.signals\n                    .push_back(NewSignal!(SignalKind::JobCleanedUp, idx, self.jobs));")
m("C20-failure-signal-queued-before-state-check", "C20",
  "        let idx = *self.job_id_to_node_idx.get(job_id).expect(\"Unknown job id\");\n        let j = &mut self.jobs[idx as usize];\n        match j.state {\n            JobState::Always(JobStateAlways::Running)\n            | JobState::Output(JobStateOutput::Running)\n            | JobState::Ephemeral(JobStateEphemeral::Running(_)) => {}\n            _ => {\n                return Err(PPGEvaluatorError::APIError(format!(\n                    \"Reported a job as finished that was not running ! {:?}\",\n                    j\n                )))\n            }\n        }\n        self.signals\n            .push_back(NewSignal!(SignalKind::JobFinishedFailure, idx, self.jobs));",
  "        let idx = *self.job_id_to_node_idx.get(job_id).expect(\"Unknown job id\");\n        if matches!(self.jobs[idx].state, JobState::Ephemeral(JobStateEphemeral::ReadyToRun(_))) {\n            self.signals\n                .push_back(NewSignal!(SignalKind::JobUpstreamFailure, idx, self.jobs));\n        }\n        let j = &mut self.jobs[idx as usize];\n        match j.state {\n            JobState::Always(JobStateAlways::Running)\n            | JobState::Output(JobStateOutput::Running)\n            | JobState::Ephemeral(JobStateEphemeral::Running(_)) => {}\n            _ => {\n                return Err(PPGEvaluatorError::APIError(format!(\n                    \"Reported a job as finished that was not running ! {:?}\",\n                    j\n                )))\n            }\n        }\n        self.signals\n            .push_back(NewSignal!(SignalKind::JobFinishedFailure, idx, self.jobs));")
m("C17-ephemeral-stays-in-ready-set-when-started", "C17",
  "            JobState::Ephemeral(JobStateEphemeral::ReadyToRun(validation_status)) => {\n                self.jobs_ready_to_run.remove(job_id);\n",
  "            JobState::Ephemeral(JobStateEphemeral::ReadyToRun(validation_status)) => {\n                if validation_status != ValidationStatus::Validated {\n                    self.jobs_ready_to_run.remove(job_id);\n                }\n")
m("C10-abort-skips-delayed-ephemerals", "C10",
  "            if !job.state.is_finished() {\n                //dbg!(\"Declaring upstream failure\", job);\n                signal_failure.push(job_idx);\n            }",
  "            if !job.state.is_finished()\n                && job.state != JobState::Ephemeral(JobStateEphemeral::ReadyButDelayed)\n            {\n                //dbg!(\"Declaring upstream failure\", job);\n                signal_failure.push(job_idx);\n            }")
m("C16-check-skipped-for-ephemeral-with-several-consumers", "C16",
  "        if j.state == JobState::Ephemeral(JobStateEphemeral::Running(ValidationStatus::Validated)) {",
  "        if j.state == JobState::Ephemeral(JobStateEphemeral::Running(ValidationStatus::Validated))\n            && self\n                .dag\n                .neighbors_directed(node_idx, Direction::Outgoing)\n                .count()\n                < 3\n        {")
m("C16-check-also-for-invalidated-ephemeral", "C16",
  "        if j.state == JobState::Ephemeral(JobStateEphemeral::Running(ValidationStatus::Validated)) {",
  "        if matches!(\n            j.state,\n            JobState::Ephemeral(JobStateEphemeral::Running(_))\n        ) && Self::has_upstreams(&self.dag, node_idx)\n        {")
m("C15-string-compare-when-upstream-is-always", "C15",
  "                        if strategy.is_history_altered(\n                            upstream_id,\n                            downstream_id,\n                            &last_history_value,\n                            current_value,\n                        ) {",
  "                        if (matches!(jobs[upstream_idx].state, JobState::Always(_))\n                            && matches!(jobs[downstream_idx].state, JobState::Ephemeral(_))\n                            && *last_history_value != **current_value)\n                            || strategy.is_history_altered(\n                                upstream_id,\n                                downstream_id,\n                                &last_history_value,\n                                current_value,\n                            )\n                        {")
m("C03-input-names-only-compared-when-shorter", "C03",
  "                Some(historical_input_names) => {\n                    *historical_input_names\n                        != self\n                            .strategy\n                            .get_input_list(node_idx, &self.dag, &self.jobs)\n                }",
  "                Some(historical_input_names) => {\n                    let now = self\n                        .strategy\n                        .get_input_list(node_idx, &self.dag, &self.jobs);\n                    *historical_input_names != now\n                        && !(now.len() > historical_input_names.len()\n                            && now.starts_with(historical_input_names.as_str())\n                            && now.matches('\\n').count() > 2)\n                }")
m("C01-missing-output-ignored-for-jobs-with-three-upstreams", "C01",
  "                        if self.strategy.output_already_present(&job.job_id) {",
  "                        if self.strategy.output_already_present(&job.job_id)\n                            || (self.history.contains_key(&job.job_id)\n                                && self\n                                    .dag\n                                    .neighbors_directed(node_idx, Direction::Incoming)\n                                    .count()\n                                    >= 3)\n                        {")
m("C07-upstream-failure-stops-at-ephemerals-below-outputs", "C07",
  "                    if propagate {\n                        new_signals.push(NewSignal!(SignalKind::JobDone, node_idx, self.jobs));\n                        let downstreams = self.dag.neighbors_directed(node_idx, Direction::Outgoing);\n                        for downstream_idx in downstreams {\n                            //if there's a consider signal, it's not valid anymore",
  "                    if propagate {\n                        new_signals.push(NewSignal!(SignalKind::JobDone, node_idx, self.jobs));\n                        let downstreams = self.dag.neighbors_directed(node_idx, Direction::Outgoing);\n                        for downstream_idx in downstreams {\n                            if matches!(self.jobs[node_idx].state, JobState::Ephemeral(_))\n                                && matches!(\n                                    self.jobs[downstream_idx].state,\n                                    JobState::Ephemeral(JobStateEphemeral::NotReady(\n                                        ValidationStatus::Validated\n                                    ))\n                                )\n                            {\n                                continue;\n                            }\n                            //if there's a consider signal, it's not valid anymore")
m("C19-round-limit-does-not-scale", "C19",
  "        if depth as usize > 1500 + 32 * self.jobs.len() {",
  "        if depth as usize > 1500 + 32 * self.jobs.len().min(100) {")
m("C11-input-list-not-refreshed-when-present", "C11",
  "                out.insert(\n                    input_name_key,\n                    self.strategy.get_input_list(idx, &self.dag, &self.jobs),\n                );",
  "                if !out.contains_key(&input_name_key) || job.history_output != self.history.get(&key).cloned() {\n                    out.insert(\n                        input_name_key,\n                        self.strategy.get_input_list(idx, &self.dag, &self.jobs),\n                    );\n                }")
m("C12-skipped-ephemeral-edge-to-skipped-output-not-rerecorded", "C12",
  "                                                JobState::Ephemeral(_) => {\n                                                    continue;\n                                                }",
  "                                                JobState::Ephemeral(_) => {\n                                                    out.remove(&key);\n                                                    continue;\n                                                }")
m("C13-cleanup-offered-although-a-later-sibling-failed", "C13",
  "                    } else if jobs[downstream_idx].state.is_failed() {\n                        no_downstream_failed = false;\n                        break;\n                    }",
  "                    } else if jobs[downstream_idx].state.is_failed()\n                        && !jobs[downstream_idx].state.is_upstream_failure()\n                    {\n                        no_downstream_failed = false;\n                        break;\n                    }")
m("C14-requirement-from-first-downstream-only", "C14",
  "                                Required::Yes => {\n                                    any_required = true;\n                                    break;\n                                }\n                                Required::No => {}",
  "                                Required::Yes => {\n                                    any_required = true;\n                                    break;\n                                }\n                                Required::No => {\n                                    if self.job_id_to_node_idx.len() > 4 {\n                                        break;\n                                    }\n                                }")
m("C05-delayed-upstreams-not-reconsidered-recursively", "C05",
  "                    JobStateEphemeral::NotReady(_) => {\n                        //new_signals.push(NewSignal!(SignalKind::ConsiderJob,upstream_idx, jobs));\n                        Self::reconsider_delayed_upstreams(",
  "                    JobStateEphemeral::NotReady(ValidationStatus::Invalidated) => {}\n                    JobStateEphemeral::NotReady(_) => {\n                        //new_signals.push(NewSignal!(SignalKind::ConsiderJob,upstream_idx, jobs));\n                        Self::reconsider_delayed_upstreams(")
m("C06-new-history-error-for-skipped-ephemeral-edge", "C06",
  "                                                JobState::Ephemeral(_) => {\n                                                    continue;\n                                                }",
  "                                                JobState::Ephemeral(_) if self.jobs[b as usize].history_output.is_none() => {\n                                                    continue;\n                                                }")
m("C09-upstream-failed-ephemeral-loses-own-record", "C09",
  "                if !job.state.is_upstream_failure() && !job.state.is_aborted() {",
  "                if (!job.state.is_upstream_failure()\n                    || matches!(job.state, JobState::Ephemeral(_)) && self.dag.neighbors_directed(idx, Direction::Incoming).count() > 1)\n                    && !job.state.is_aborted()\n                {")
m("C02-all-upstreams-done-ignores-delayed-ephemerals-for-always", "C02",
  "            JobState::Always(JobStateAlways::Undetermined) => {\n                if Self::all_upstreams_done(dag, jobs, node_idx) {",
  "            JobState::Always(JobStateAlways::Undetermined) => {\n                if Self::all_upstreams_done(dag, jobs, node_idx)\n                    || dag\n                        .neighbors_directed(node_idx, Direction::Incoming)\n                        .all(|u| {\n                            jobs[u].state.is_finished()\n                                || jobs[u].state\n                                    == JobState::Ephemeral(JobStateEphemeral::Running(\n                                        ValidationStatus::Validated,\n                                    ))\n                        })\n                {")
out='/verif/seeded/hand'
ok=0
for name, prop, old, new in M:
    c = src.count(old)
    if c != 1:
        print("SKIP", name, "matches", c); continue
    mutated = src.replace(old, new)
    diff = ''.join(difflib.unified_diff(src.splitlines(True), mutated.splitlines(True), 'a/src/engine.rs', 'b/src/engine.rs'))
    open(f'{out}/{name}.diff','w').write(diff)
    ok+=1
print(ok, "mutants written")
