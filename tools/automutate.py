#!/usr/bin/env python3
"""Systematic sensitivity measurement: syntactic mutants of /repo/src/engine.rs.

For each mutant (one small textual change, see OPERATORS): on a scratch COPY of /repo
 stage 1  cargo test --lib (the repository's 74 tests). Does not compile / killed by the
          suite => the mutant does not count (ordinary testing exposes it).
 stage 2  the harness is rebuilt against the copy; `ppgcheck scan` (all oracles of all
          properties at once, stops at the first violation) decides killed / survived.
Survivors are listed for manual analysis (equivalent mutant, or a gap of generator/oracle).
/repo itself is never modified. usage:
  automutate.py list                      -> number of mutants per operator
  automutate.py run OUT.jsonl [--lanes N] [--cases N] [--sample K] [--seed S] [--only-op OP] [--ids a,b,c]
"""
import json, os, random, re, shutil, subprocess, sys, threading, time

REPO = "/repo"
HERE = os.path.dirname(os.path.dirname(os.path.abspath(__file__)))
SRC = "src/engine.rs"
ROOT = os.environ.get("AMROOT", "/tmp/automut")

SKIP_LINE = re.compile(r'^\s*(//|#\[|debug!|warn!|error!|info!|trace!|log::|println!|eprintln!|assert|panic!|unreachable!|use |pub use |mod )')


def candidate_lines(lines):
    """(index, line) of lines that may be mutated: engine code outside tests, hooks and messages"""
    out = []
    in_cfg_next = False
    depth_skip = 0
    for i, l in enumerate(lines):
        s = l.strip()
        if "tyberiusprime_pypipegraph2_verif" in l:
            in_cfg_next = True
            continue
        if in_cfg_next:
            in_cfg_next = False
            continue
        if not s or SKIP_LINE.match(l):
            continue
        if "InternalError" in l or "APIError(" in l and "format!" in l:
            continue
        if "verif" in l:
            continue
        out.append((i, l))
    return out


def mutants_of(text):
    lines = text.split("\n")
    res = []  # (id, op, lineno, new_line or None(delete))
    for i, l in candidate_lines(lines):
        code = l.split("//")[0]
        # R1 == <-> !=
        for m in re.finditer(r'(==|!=)', code):
            if code[m.start() - 1:m.start()] in ("<", ">", "=", "!") or code[m.end():m.end() + 1] == "=":
                continue
            rep = "!=" if m.group(1) == "==" else "=="
            res.append(("cmp", i, l[:m.start()] + rep + l[m.end():]))
        # R2 && <-> ||
        for m in re.finditer(r'(&&|\|\|)', code):
            if m.group(1) == "||" and re.search(r'\|\|\s*(\{|[a-z_]+\()', code[m.start():]) and "if" not in code and "=" not in code:
                continue  # closure without arguments
            rep = "||" if m.group(1) == "&&" else "&&"
            res.append(("logic", i, l[:m.start()] + rep + l[m.end():]))
        # R3 negate single line if / else if conditions (not `if let`)
        m = re.match(r'^(\s*(?:\} else )?if )(?!let\b)(.+?)( \{\s*)$', code)
        if m and l == code:
            res.append(("negate-if", i, m.group(1) + "!(" + m.group(2) + ")" + m.group(3)))
        # R4 any <-> all
        for m in re.finditer(r'\.(any|all)\(', code):
            rep = "all" if m.group(1) == "any" else "any"
            res.append(("quantifier", i, l[:m.start() + 1] + rep + l[m.start() + 1 + len(m.group(1)):]))
        # R5 delete a single line statement
        st = code.strip()
        if st.endswith(";") and st.count("(") == st.count(")") and st.count("{") == st.count("}") and not st.startswith(("let ", "return", "break", "continue", "}")):
            if re.match(r'^(self\.|reconsider_job!|set_node_state!|new_signals\.|[a-z_\.\[\]]+\.(insert|remove|push|push_back|extend|retain|clear)\(|[a-z_\.]+ = )', st):
                res.append(("delete-stmt", i, None))
        # R6 true <-> false
        for m in re.finditer(r'\b(true|false)\b', code):
            rep = "false" if m.group(1) == "true" else "true"
            res.append(("bool", i, l[:m.start()] + rep + l[m.end():]))
        # R7 enum constants
        for a, b in (("Required::Yes", "Required::No"), ("Required::No", "Required::Yes"),
                     ("ValidationStatus::Validated", "ValidationStatus::Invalidated"),
                     ("ValidationStatus::Invalidated", "ValidationStatus::Validated"),
                     ("Required::Unknown", "Required::No"), ("ValidationStatus::Unknown", "ValidationStatus::Validated")):
            for m in re.finditer(re.escape(a) + r'\b', code):
                res.append(("enum", i, l[:m.start()] + b + l[m.end():]))
        # R8 drop one alternative of a multi line pattern
        if re.match(r'^\s*\| [A-Z][A-Za-z:()_, ]+$', code) and l == code:
            res.append(("drop-pattern-alt", i, None))
        # R9 continue / break / early return removal
        if st in ("continue;", "break;"):
            res.append(("drop-jump", i, None))
        if st in ("return;", "return Ok(());") :
            res.append(("drop-return", i, None))
        # R10 off by one / constants
        for m in re.finditer(r'(?<![\w.])(0|1|2)(?![\w.])', code):
            if "[" in code[max(0, m.start() - 1):m.start()]:
                continue
            rep = {"0": "1", "1": "0", "2": "1"}[m.group(1)]
            res.append(("const", i, l[:m.start()] + rep + l[m.end():]))
    out = []
    for n, (op, i, new) in enumerate(res):
        out.append({"id": "m%04d" % n, "op": op, "line": i + 1, "old": lines[i].strip(), "new": None if new is None else new.strip(), "_new_raw": new})
    return lines, out


def sh(cmd, cwd=None, env=None, timeout=1800):
    e = dict(os.environ)
    e["CARGO_NET_OFFLINE"] = "true"
    if env:
        e.update(env)
    try:
        p = subprocess.run(cmd, shell=True, cwd=cwd, env=e, stdout=subprocess.PIPE, stderr=subprocess.STDOUT, timeout=timeout)
        return p.returncode, p.stdout.decode(errors="replace")
    except subprocess.TimeoutExpired as ex:
        return 124, (ex.stdout or b"").decode(errors="replace") + "\nTIMEOUT"


class Lane:
    def __init__(self, k, cases, threads):
        self.k, self.cases, self.threads = k, cases, threads
        self.dir = os.path.join(ROOT, "lane%d" % k)
        shutil.rmtree(self.dir, ignore_errors=True)
        os.makedirs(self.dir)
        sh("rsync -a --exclude target --exclude .git %s/ %s/repo/" % (REPO, self.dir))
        sh("rsync -a --exclude target --exclude fuzz %s/harness/ %s/harness/" % (HERE, self.dir))
        sh("sed -i 's|path = \"/repo\"|path = \"%s/repo\"|' %s/harness/Cargo.toml" % (self.dir, self.dir))
        os.makedirs(self.dir + "/verif")
        shutil.copy(HERE + "/known_findings.json", self.dir + "/verif/")
        self.pristine = open(os.path.join(self.dir, "repo", SRC)).read()

    def run(self, lines, m):
        new = list(lines)
        if m["_new_raw"] is None:
            new[m["line"] - 1] = "// MUTANT: deleted: " + new[m["line"] - 1].strip()
        else:
            new[m["line"] - 1] = m["_new_raw"]
        open(os.path.join(self.dir, "repo", SRC), "w").write("\n".join(new))
        r = {k: v for k, v in m.items() if not k.startswith("_")}
        t0 = time.time()
        rc, out = sh("cargo test --offline --lib 2>&1 | tail -40", cwd=self.dir + "/repo", env={"CARGO_TARGET_DIR": self.dir + "/t1"}, timeout=600)
        if "test result: ok. 74 passed" not in out:
            if "error" in out and "test result" not in out:
                r["status"] = "does-not-compile"
            elif "TIMEOUT" in out:
                r["status"] = "killed-by-suite(timeout)"
            else:
                r["status"] = "killed-by-suite"
            r["secs"] = round(time.time() - t0, 1)
            return r
        rc, out = sh("cargo build --release --offline 2>&1 | tail -5", cwd=self.dir + "/harness",
                     env={"CARGO_TARGET_DIR": self.dir + "/t2", "RUSTFLAGS": "--cfg tyberiusprime_pypipegraph2_verif"}, timeout=900)
        if "Finished" not in out:
            r["status"] = "harness-build-failed"
            r["detail"] = out[-300:]
            return r
        rc, out = sh("%s/t2/release/ppgcheck scan --cases %d --threads %d" % (self.dir, self.cases, self.threads), cwd=self.dir,
                     env={"VERIF_DIR": self.dir + "/verif"}, timeout=1500)
        mm = re.search(r'SCAN KILLED after (\d+) scenarios: (.*?) :: ', out, re.S)
        if mm:
            r["status"] = "killed-by-checks"
            r["after"] = int(mm.group(1))
            r["signature"] = mm.group(2).replace("\n", " ")[:160]
        elif "SCAN SURVIVED" in out:
            r["status"] = "SURVIVED"
        elif rc == 124:
            r["status"] = "scan-timeout(hang)"
        else:
            r["status"] = "scan-crashed"
            r["detail"] = out[-300:]
        r["secs"] = round(time.time() - t0, 1)
        return r

    def close(self):
        shutil.rmtree(self.dir, ignore_errors=True)


def main():
    text = open(os.path.join(REPO, SRC)).read()
    lines, ms = mutants_of(text)
    if sys.argv[1] == "list":
        from collections import Counter
        c = Counter(m["op"] for m in ms)
        print(len(ms), dict(c))
        return
    out = sys.argv[2]
    def opt(name, d):
        return sys.argv[sys.argv.index(name) + 1] if name in sys.argv else d
    lanes = int(opt("--lanes", "3"))
    cases = int(opt("--cases", "40000"))
    threads = int(opt("--threads", "4"))
    sample = int(opt("--sample", "0"))
    seed = int(opt("--seed", "1"))
    only = opt("--only-op", "")
    ids = opt("--ids", "")
    if only:
        ms = [m for m in ms if m["op"] == only]
    if ids:
        want = set(ids.split(","))
        ms = [m for m in ms if m["id"] in want]
    done = set()
    if os.path.exists(out):
        for l in open(out):
            try:
                done.add(json.loads(l)["id"])
            except Exception:
                pass
    ms = [m for m in ms if m["id"] not in done]
    if sample and len(ms) > sample:
        random.Random(seed).shuffle(ms)
        ms = sorted(ms[:sample], key=lambda m: m["id"])
    print("%d mutants to run, %d lanes" % (len(ms), lanes), flush=True)
    lock = threading.Lock()
    it = iter(ms)
    f = open(out, "a")
    def work(k):
        lane = Lane(k, cases, threads)
        while True:
            with lock:
                m = next(it, None)
            if m is None:
                break
            r = lane.run(lines, m)
            with lock:
                f.write(json.dumps(r) + "\n")
                f.flush()
                print(r["id"], r["op"], r["line"], r["status"], r.get("signature", ""), flush=True)
        lane.close()
    ts = [threading.Thread(target=work, args=(k,)) for k in range(lanes)]
    for t in ts:
        t.start()
    for t in ts:
        t.join()


if __name__ == "__main__":
    main()
