#!/bin/bash
# seed_round5.sh <root> <Hxx> <checks for a> -- <checks for b> : confirm both changes of one region agent and run the named
# quick checks against each, generated search alone (replay tier removed); SEEDS env is passed on to mutant.sh
ROOT="$1"; id="$2"; shift 2
HERE="$(cd "$(dirname "$0")/.." && pwd)"
A=(); B=(); cur=A
for x in "$@"; do if [ "$x" = "--" ]; then cur=B; elif [ $cur = A ]; then A+=("$x"); else B+=("$x"); fi; done
for v in a b; do
    D="$ROOT/$id/seeded/$v"; [ -f "$D/patch.diff" ] || continue
    c=$(CONFIRM_LANE=$id "$HERE/tools/confirm_seed.sh" "$D" 2>&1 | tail -1)
    echo "CONFIRM $id/$v: $c"
    if [ $v = a ]; then checks=("${A[@]}"); else checks=("${B[@]}"); fi
    MUTROOT=/tmp/ppgmut-$id NOTEST=1 NOREPLAY=1 "$HERE/tools/mutant.sh" "$id-$v" "$D/patch.diff" "${checks[@]}" 2>&1 | sed "s|^|DETECT $id/$v: |"
done
rm -rf /tmp/confirm/target-$id /tmp/ppgmut-$id
