#!/bin/bash
# Confirm a seeded change independently: in a fresh scratch worktree of /repo HEAD
#  (1) the demonstration passes without the patch, (2) the patch applies, the 74 lib tests still pass,
#  (3) the demonstration fails with the patch. usage: confirm_seed.sh <dir with patch.diff + seeded_demo.rs>
D="$1"; W=/tmp/confirm/$(basename "$D")-$$
mkdir -p /tmp/confirm; git -C /repo worktree add -q --detach "$W" HEAD || exit 2
export CARGO_NET_OFFLINE=true CARGO_TARGET_DIR=/tmp/confirm/target${DEMO_RUSTFLAGS:+-flags}
[ -n "${DEMO_RUSTFLAGS:-}" ] && export RUSTFLAGS="$DEMO_RUSTFLAGS"
cp "$D/seeded_demo.rs" "$W/tests/seeded_demo.rs"
cd "$W"
if cargo test --offline --test seeded_demo >"$W/demo0.log" 2>&1; then a=pass; else a=FAIL; fi
if git apply "$D/patch.diff" 2>"$W/apply.log"; then ap=ok; else ap=NO; fi
if cargo test --offline --lib >"$W/lib.log" 2>&1; then l="pass($(grep -c ' ... ok' "$W/lib.log"))"; else l=FAIL; fi
if cargo test --offline --test seeded_demo >"$W/demo1.log" 2>&1; then b=pass; else b=FAIL; fi
echo "$(basename "$(dirname "$D")"): demo without patch=$a ; patch applies=$ap ; lib tests with patch=$l ; demo with patch=$b"
[ "$a" = pass ] && [ "$ap" = ok ] && [[ "$l" == pass* ]] && [ "$b" = FAIL ]; ok=$?
cd /; git -C /repo worktree remove --force "$W"
exit $ok
