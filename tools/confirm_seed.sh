#!/bin/bash
# Confirm a seeded change independently: in a fresh scratch worktree of /repo HEAD
#  (1) the demonstration passes without the patch, (2) the patch applies, the 74 lib tests still pass,
#  (3) the demonstration fails with the patch.
# usage: confirm_seed.sh <dir with patch.diff + (seeded_demo.rs | demo.diff adding a unit test to src/tests.rs)>
D="$(realpath "$1")"; W=/tmp/confirm/$(basename "$(dirname "$D")")-$(basename "$D")-$$
mkdir -p /tmp/confirm; git -C /repo worktree add -q --detach "$W" HEAD || exit 2
export CARGO_NET_OFFLINE=true CARGO_TARGET_DIR=/tmp/confirm/target${DEMO_RUSTFLAGS:+-flags}${CONFIRM_LANE:+-$CONFIRM_LANE}
[ -n "${DEMO_RUSTFLAGS:-}" ] && export RUSTFLAGS="$DEMO_RUSTFLAGS"
cd "$W"
if [ -f "$D/seeded_demo.rs" ]; then
    cp "$D/seeded_demo.rs" "$W/tests/seeded_demo.rs"
    if cargo test --offline --test seeded_demo >"$W/demo0.log" 2>&1; then a=pass; else a=FAIL; fi
    if git apply "$D/patch.diff" 2>"$W/apply.log"; then ap=ok; else ap=NO; fi
    if cargo test --offline --lib >"$W/lib.log" 2>&1; then l="pass($(grep -c ' ... ok' "$W/lib.log"))"; else l=FAIL; fi
    if cargo test --offline --test seeded_demo >"$W/demo1.log" 2>&1; then b=pass; else b=FAIL; fi
else
    # demonstration is a unit test added to src/tests.rs
    if git apply "$D/demo.diff" 2>"$W/apply0.log" && cargo test --offline --lib >"$W/demo0.log" 2>&1; then a="pass($(grep -c ' ... ok' "$W/demo0.log"))"; else a=FAIL; fi
    git checkout -q -- . ; git clean -fdq
    if git apply "$D/patch.diff" 2>"$W/apply.log"; then ap=ok; else ap=NO; fi
    if cargo test --offline --lib >"$W/lib.log" 2>&1; then l="pass($(grep -c ' ... ok' "$W/lib.log"))"; else l=FAIL; fi
    git apply "$D/demo.diff" 2>>"$W/apply.log" || ap="$ap(demo.diff does not apply on top)"
    if cargo test --offline --lib >"$W/demo1.log" 2>&1; then b=pass; else b="FAIL($(grep -c ' ... FAILED' "$W/demo1.log") failed, $(grep -c ' ... ok' "$W/demo1.log") ok)"; fi
    a=${a/pass*/pass}
fi
echo "$(basename "$(dirname "$D")")/$(basename "$D"): demo without patch=$a ; patch applies=$ap ; lib tests with patch=$l ; demo with patch=$b"
[ "$a" = pass ] && [ "$ap" = ok ] && [[ "$l" == "pass(74)" ]] && [[ "$b" == FAIL* ]]; ok=$?
cd /; git -C /repo worktree remove --force "$W"
exit $ok
