#!/usr/bin/env python3
"""confirm + detect seeded changes whose property is named in meta.json.
usage: seed_round3.py <root> <lanes> <out.jsonl> [extra check ids]   (root/Rxx/seeded/{a,b})"""
import glob, json, os, re, subprocess, sys, threading
root, lanes, out = sys.argv[1], int(sys.argv[2]), sys.argv[3]
extra = sys.argv[4:]
HERE = os.path.dirname(os.path.dirname(os.path.abspath(__file__)))
dirs = sorted(glob.glob(root + '/R*/seeded/[ab]'))
done = set()
if os.path.exists(out):
    for l in open(out):
        done.add(json.loads(l)['dir'])
dirs = [d for d in dirs if d not in done and os.path.exists(d + '/patch.diff')]
lock = threading.Lock(); it = iter(dirs); f = open(out, 'a')
def work(k):
    while True:
        with lock:
            d = next(it, None)
        if d is None: return
        try: meta = json.load(open(d + '/meta.json'))
        except Exception: meta = {}
        prop = str(meta.get('property', ''))[:3]
        m = re.match(r'C\d\d', prop)
        checks = ([prop] if m else []) + [c for c in extra if c != prop]
        env = dict(os.environ, CONFIRM_LANE=str(k), MUTROOT='/tmp/ppgmut-r3-%d' % k, NOTEST='1')
        c = subprocess.run([HERE + '/tools/confirm_seed.sh', d], env=env, stdout=subprocess.PIPE, stderr=subprocess.STDOUT).stdout.decode().strip().split('\n')[-1]
        name = d.split('/')[-3] + d[-1]
        r = subprocess.run([HERE + '/tools/mutant.sh', name, d + '/patch.diff'] + checks, env=env, stdout=subprocess.PIPE, stderr=subprocess.STDOUT).stdout.decode()
        det = [l for l in r.split('\n') if l.startswith(name + ' C')]
        with lock:
            f.write(json.dumps({'dir': d, 'property': prop, 'confirm': c, 'detect': det}) + '\n'); f.flush()
            print(name, prop, '|', c.split(': ', 1)[-1][:120]); [print('   ', x[:230]) for x in det]; sys.stdout.flush()
ts = [threading.Thread(target=work, args=(k,)) for k in range(lanes)]
[t.start() for t in ts]; [t.join() for t in ts]
