#!/bin/bash
# Sensitivity matrices: every check (quick tier) against (a) each repaired defect re-introduced
# (git revert of the fix commit on a scratch copy) and (b) each hand-made mutant / seeded change.
# usage: matrix.sh reverts|hand|seeded [out.md]   (env NOREPLAY=1: generated search alone, no replay tier)
# /repo itself is never modified; scratch copies live under $MUTROOT (default /tmp/ppgmut) and are removed.
HERE="$(cd "$(dirname "$0")/.." && pwd)"
WHAT="$1"; OUT="${2:-/dev/stdout}"
ALL="C01 C02 C03 C04 C05 C06 C07 C08 C09 C10 C11 C12 C13 C14 C15 C16 C17 C18 C19 C20"
row() { # name src checks...
    local name="$1" src="$2"; shift 2
    local res; res=$(NOTEST=${NOTEST:-1} "$HERE/tools/mutant.sh" "$name" "$src" "$@" 2>&1)
    local caught="" missed=""
    for c in "$@"; do
        rc=$(echo "$res" | grep -E "^$name $c rc=" | sed -E 's/.* rc=([0-9]+) .*/\1/')
        case "$rc" in 1) caught="$caught $c" ;; 0) missed="$missed $c" ;; *) missed="$missed $c(rc=$rc)" ;; esac
    done
    first=$(echo "$res" | grep -E " rc=1 " | head -1 | sed -E 's/^[^ ]+ (C[0-9]+) rc=1 ([0-9.]+s) (.*)$/\1 in \2: \3/' | cut -c1-160)
    echo "| $name | ${caught:- -} | ${missed:- -} | $first |" >> "$OUT"
}
{
echo "# $WHAT matrix (quick tier${NOREPLAY:+, generated search alone - replay tier removed}) - $(date -u +%F)"
echo
echo "| change | checks that report a violation | checks that stay silent | first report |"
echo "|---|---|---|---|"
} > "$OUT"
case "$WHAT" in
    reverts)
        for c in $(git -C /repo log --format=%h --grep='^fix:' ); do
            row "revert-$c" "revert:$c" $ALL
        done ;;
    hand)
        for f in "$HERE"/seeded/hand/*.diff; do
            n=$(basename "$f" .diff); own=${n%%-*}
            row "$n" "$f" $own ${EXTRA_CHECKS:-}
        done ;;
    seeded)
        for d in "$HERE"/seeded/C*/; do
            n=$(basename "$d"); own=${n%%-*}
            row "$n" "$d/patch.diff" $own ${EXTRA_CHECKS:-}
        done ;;
esac
