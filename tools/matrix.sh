#!/bin/bash
# Sensitivity matrices: every check (quick tier) against (a) each repaired defect re-introduced
# (git revert of the fix commit on a scratch copy) and (b) each hand-made mutant / seeded change.
# usage: matrix.sh reverts|hand|seeded [out.md]   (env NOREPLAY=1: generated search alone, no replay tier)
# /repo itself is never modified; scratch copies live under $MUTROOT (default /tmp/ppgmut) and are removed.
HERE="$(cd "$(dirname "$0")/.." && pwd)"
WHAT="$1"; OUT="${2:-/dev/stdout}"
ALL="C01 C02 C03 C04 C05 C06 C07 C08 C09 C10 C11 C12 C13 C14 C15 C16 C17 C18 C19 C20"
row() { # name src checks...   (env KEEP_FOUND=dir keeps the shrunk scenarios, SEEDS="1 2" repeats per seed)
    local name="$1" src="$2"; shift 2
    local res; res=$(NOTEST=${NOTEST:-1} "$HERE/tools/mutant.sh" "$name" "$src" "$@" 2>&1)
    local caught="" missed=""
    for c in "$@"; do
        n=$(echo "$res" | grep -cE "^$name $c rc=")
        n1=$(echo "$res" | grep -cE "^$name $c rc=1 ")
        n2=$(echo "$res" | grep -cE "^$name $c rc=[2-9]")
        if [ "$n" -gt 0 ] && [ "$n1" -eq "$n" ]; then caught="$caught $c"
        elif [ "$n1" -gt 0 ]; then caught="$caught $c($n1/$n)"
        elif [ "$n2" -gt 0 ] || [ "$n" -eq 0 ]; then missed="$missed $c(inconclusive)"
        else missed="$missed $c"; fi
    done
    first=$(echo "$res" | grep -E " rc=1 " | head -1 | sed -E 's/^[^ ]+ (C[0-9]+) rc=1 ([0-9.]+s) (.*)$/\1 in \2: \3/' | cut -c1-160)
    echo "| $name | ${caught:- -} | ${missed:- -} | $first |" >> "$OUT"
}
{
echo "# $WHAT matrix (quick tier${NOREPLAY:+, generated search alone - replay tier removed}) - $(date -u +%F)"
echo
echo "| change | checks that report a violation | checks that stay silent | first report |"
echo "|---|---|---|---|"
} > "$OUT"
case "$WHAT" in
    reverts)
        for c in $(git -C /repo log --format=%h --grep='^fix:' ); do
            row "revert-$c" "revert:$c" ${REVERT_CHECKS:-$ALL}
        done ;;
    hand)
        for f in "$HERE"/seeded/hand/*.diff; do
            n=$(basename "$f" .diff); own=${n%%-*}
            row "$n" "$f" $own ${EXTRA_CHECKS:-}
        done ;;
    seeded)
        for d in "$HERE"/seeded/C*/; do
            n=$(basename "$d"); own=${n%%-*}
            row "$n" "$d/patch.diff" $own ${EXTRA_CHECKS:-}
        done ;;
esac
