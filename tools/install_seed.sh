#!/bin/bash
# install_seed.sh <name> <dir with patch.diff seeded_demo.rs meta.json> "<confirm line>" "<detection lines>"
N="$1"; D="$2"; mkdir -p /verif/seeded/$N
cp "$D/patch.diff" "$D/seeded_demo.rs" /verif/seeded/$N/
[ -f "$D/demo.diff" ] && cp "$D/demo.diff" /verif/seeded/$N/
python3 - "$N" "$D" "$3" "$4" <<'PY'
import json,sys
n,d,confirm,det=sys.argv[1:5]
try: m=json.load(open(d+'/meta.json'))
except Exception as e: m={"meta_unreadable":str(e)}
m["confirmed_independently"]=confirm
m["checks_run_against_it"]=[l for l in det.split('\n') if l.strip()]
m["how_to_run"]="tools/mutant.sh <name> seeded/%s/patch.diff <check ids> (applies the patch to a scratch copy of /repo; /repo itself is never modified)" % n
json.dump(m,open('/verif/seeded/%s/meta.json'%n,'w'),indent=1)
PY
