#!/bin/bash
# sweep.sh <tier> <seed> [ids...] : run the checks of one tier on the unchanged tree, one summary line each;
# violations (there must be none) are kept with their replay files under sweep_found/
HERE="$(cd "$(dirname "$0")/.." && pwd)"
TIER="$1"; SEED="$2"; shift 2
IDS="${*:-C01 C02 C03 C04 C05 C06 C07 C08 C09 C10 C11 C12 C13 C14 C15 C16 C17 C18 C19 C20}"
mkdir -p "$HERE/sweep_found"
for c in $IDS; do
    out=$(cd "$HERE" && VERIF_SEED=$SEED ./check $c --tier $TIER 2>&1); rc=$?
    echo "$(date -u +%H:%M) seed=$SEED rc=$rc $(echo "$out" | grep -E "^$c (quick|thorough):" | tail -1)"
    if [ $rc -ne 0 ]; then
        echo "$out" | grep -E "^(violation|VIOLATION|replay|watchdog|harness)" | cut -c1-400
        f=$(echo "$out" | sed -n 's/^VIOLATION property=[A-Z0-9]* replay=//p' | head -1)
        [ -n "$f" ] && cp "$f" "$HERE/sweep_found/" 2>/dev/null
    fi
done
