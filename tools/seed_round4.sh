#!/bin/bash
# seed_round4.sh <root> <id> [extra check ids] : confirm the two seeded changes of one agent (root/<id>/seeded/{a,b}),
# run the owning quick check against each - generated search alone (replay tier removed) - and print what it finds
ROOT="$1"; id="$2"; shift 2
HERE="$(cd "$(dirname "$0")/.." && pwd)"
for v in a b; do
    D="$ROOT/$id/seeded/$v"; [ -f "$D/patch.diff" ] || continue
    flags=""; [ "$id" = C15 ] && flags="--cfg tyberiusprime_pypipegraph2_verif"
    c=$(DEMO_RUSTFLAGS="$flags" CONFIRM_LANE=$id "$HERE/tools/confirm_seed.sh" "$D" 2>&1 | tail -1)
    echo "CONFIRM $id/$v: $c"
    m=$(MUTROOT=/tmp/ppgmut-$id NOTEST=1 NOREPLAY=1 "$HERE/tools/mutant.sh" "$id-$v" "$D/patch.diff" $id "$@" 2>&1)
    echo "$m" | sed "s|^|DETECT $id/$v: |"
done
rm -rf /tmp/confirm/target-$id /tmp/confirm/target-flags-$id /tmp/ppgmut-$id
