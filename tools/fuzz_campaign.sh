#!/bin/bash
# Fixed-work libFuzzer campaign on the chain target with the oracle of one property in-target.
# usage: fuzz_campaign.sh <PROP> <runs-per-worker> <seed> <workers> <summary.json>
# exit 0: no crash; 1: crash artifact found (path printed as ARTIFACT=<path>); 2: inconclusive (build problem)
PROP="$1"; RUNS="$2"; SEED="$3"; WORKERS="$4"; SUMMARY="$5"
HERE="$(cd "$(dirname "$0")/.." && pwd)"
FZ="$HERE/harness/fuzz"
export CARGO_NET_OFFLINE=true
export RUSTFLAGS="--cfg tyberiusprime_pypipegraph2_verif"
export VERIF_DIR="$HERE"
cd "$FZ" || exit 2
cp "$HERE/harness/Cargo.lock" "$FZ/Cargo.lock" 2>/dev/null
if ! cargo +nightly fuzz build -s none ppg_chain >"$FZ/build.log" 2>&1; then
    echo "fuzz target build failed (inconclusive)"; tail -n 15 "$FZ/build.log"; exit 2
fi
BIN="$FZ/target/x86_64-unknown-linux-gnu/release/ppg_chain"
WORK="$FZ/corpus/run-$$"; ART="$FZ/artifacts/run-$$"
rm -rf "$WORK" "$ART"; mkdir -p "$ART"
[ "$SEED" = 0 ] && SEED=1
pids=()
for w in $(seq 1 "$WORKERS"); do
    mkdir -p "$WORK/$w"; cp "$FZ"/seeds/* "$WORK/$w/" 2>/dev/null
    PPG_FUZZ_PROP="$PROP" "$BIN" "$WORK/$w" -runs="$RUNS" -seed=$((SEED * 131 + w)) -len_control=0 -max_len=1400 \
        -artifact_prefix="$ART/w$w-" -print_final_stats=1 >"$ART/w$w.log" 2>&1 &
    pids+=($!)
done
for p in "${pids[@]}"; do wait "$p"; done
execs=$(grep -h "stat::number_of_executed_units" "$ART"/w*.log | awk '{s+=$2} END {print s+0}')
corpus=$(ls "$WORK"/*/ | wc -l)
feat=$(grep -h -o "ft: [0-9]*" "$ART"/w*.log | awk '{ if ($2>m) m=$2 } END {print m+0}')
crash=$(ls "$ART" | grep -E "^w[0-9]+-(crash|timeout|oom)-" | head -1)
printf '{"target":"ppg_chain","property_oracle":"%s","workers":%d,"runs_per_worker":%d,"seed":%d,"executions":%d,"corpus_files_at_end":%d,"max_features":%d,"sanitizer":"none (the engine has no unsafe code; the semantic oracle is inside the target)","crash_found":%s}\n' \
    "$PROP" "$WORKERS" "$RUNS" "$SEED" "$execs" "$corpus" "$feat" "$([ -n "$crash" ] && echo true || echo false)" > "$SUMMARY"
rm -rf "$WORK"
if [ -n "$crash" ]; then
    case "$crash" in
        *-crash-*) mkdir -p "$HERE/replays/found"; cp "$ART/$crash" "$HERE/replays/found/$PROP-libfuzzer-$crash"; echo "ARTIFACT=$HERE/replays/found/$PROP-libfuzzer-$crash"; rm -rf "$ART"; exit 1 ;;
        *) echo "libFuzzer reported $crash (timeout/oom: inconclusive)"; rm -rf "$ART"; exit 2 ;;
    esac
fi
rm -rf "$ART"
exit 0
