#!/bin/bash
# Sensitivity validation: run checks against a modified copy of /repo (never /repo itself).
# usage: mutant.sh <name> <patch-file | revert:COMMIT> <check ids...>   (env CASES=N overrides case counts, NOTEST=1 skips the repo suite, SEEDS="1 2 3" repeats every check per seed)
# env REPO_SRC=<dir>: take the sources from another checkout of /repo (a change that only applies to an older commit)
# Prints one line per check: "<name> <check> rc=<0|1|2> <seconds>s"; scratch copies are removed afterwards.
set -u
NAME="$1"; SRC="$2"; shift 2
[[ "$SRC" != revert:* ]] && SRC="$(realpath "$SRC")"
ROOT=${MUTROOT:-/tmp/ppgmut}; S="$ROOT/$NAME"
rm -rf "$S"; mkdir -p "$S/verif"
rsync -a --exclude target --exclude .git "${REPO_SRC:-/repo}/" "$S/repo/"
if [[ "$SRC" == revert:* ]]; then
    git -C /repo show "${SRC#revert:}" -- src | (cd "$S/repo" && patch -R -p1 -s) || { echo "$NAME: cannot revert"; exit 2; }
else
    (cd "$S/repo" && patch -p1 -s < "$SRC") || { echo "$NAME: patch does not apply"; exit 2; }
fi
VROOT="${VROOT:-$(cd "$(dirname "$0")/.." && pwd)}"
rsync -a --exclude target --exclude fuzz "$VROOT/harness/" "$S/harness/"
sed -i "s|path = \"/repo\"|path = \"$S/repo\"|" "$S/harness/Cargo.toml"
cp "$VROOT/known_findings.json" "$S/verif/"; cp -r "$VROOT/replays" "$S/verif/replays"; rm -rf "$S/verif/replays/found"; [ -n "${NOREPLAY:-}" ] && rm -rf "$S/verif/replays"
export CARGO_NET_OFFLINE=true
if [ -z "${NOTEST:-}" ]; then
    if (cd "$S/repo" && CARGO_TARGET_DIR=$ROOT/repotarget cargo test --workspace --offline >"$S/test.log" 2>&1); then
        echo "$NAME: repo test suite passes ($(grep -c ' ... ok' "$S/test.log") tests ok)"
    else
        echo "$NAME: repo test suite FAILS or does not compile (mutant does not count)"; tail -5 "$S/test.log"
    fi
fi
if ! (cd "$S/harness" && RUSTFLAGS="--cfg tyberiusprime_pypipegraph2_verif" CARGO_TARGET_DIR=$ROOT/target cargo build --release --offline >"$S/build.log" 2>&1); then
    echo "$NAME: harness build failed"; tail -20 "$S/build.log"; rm -rf "$S"; exit 2
fi
cp "$ROOT/target/release/ppgcheck" "$S/ppgcheck"
for c in "$@"; do
  for seed in ${SEEDS:-default}; do
    t0=$(date +%s.%N)
    if [ -n "${CASES:-}" ]; then
        # CASES speaks about the scenario checks; the enumeration checks do a tenth of it, the sized cases keep their own count
        case "$c" in C19) extra="" ;; C10|C20) extra="--cases $((CASES / 10))" ;; *) extra="--cases $CASES" ;; esac
    else extra=""; fi
    [ "$seed" != default ] && extra="$extra --seed $seed"
    VERIF_DIR="$S/verif" "$S/ppgcheck" "$c" $extra >"$S/$c.out" 2>&1; rc=$?
    t1=$(date +%s.%N)
    sig=$(grep -m1 -E "^(violation|replay .* shows C)" "$S/$c.out" | cut -c1-220)
    printf "%s %s rc=%d %.1fs %s%s\n" "$NAME" "$c" "$rc" "$(echo "$t1 - $t0" | bc)" "$([ "$seed" != default ] && echo "seed=$seed ")" "$sig"
    if [ $rc -eq 1 ] && [ -n "${KEEP_FOUND:-}" ]; then
        # keep the shrunk scenario that exposed the change (becomes a regression replay / corpus entry)
        f=$(sed -n 's/^VIOLATION property=[A-Z0-9]* replay=//p' "$S/$c.out" | head -1)
        case "$f" in */replays/found/*) mkdir -p "$KEEP_FOUND"; cp "$f" "$KEEP_FOUND/$NAME--$c.json" 2>/dev/null ;; esac
    fi
  done
done
rm -rf "$S"
