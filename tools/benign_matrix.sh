#!/bin/bash
# benign_matrix.sh <out.md> <dir with patch.diff>... : every quick check against changes that are believed to
# PRESERVE all properties (false-alarm test); any rc=1 must be explained (over-demanding check, or the change is not benign)
HERE="$(cd "$(dirname "$0")/.." && pwd)"
OUT="$1"; shift
ALL="C01 C02 C03 C04 C05 C06 C07 C08 C09 C10 C11 C12 C13 C14 C15 C16 C17 C18 C19 C20"
{ echo "# benign changes x all quick checks - $(date -u +%F)"; echo; echo "| change | suite | alarms (rc=1) | inconclusive (rc=2) | silent |"; echo "|---|---|---|---|---|"; } > "$OUT"
for D in "$@"; do
    name=$(basename "$(dirname "$(dirname "$D")")")-$(basename "$D")
    res=$(NOTEST= MUTROOT=${MUTROOT:-/tmp/ppgmut-b} "$HERE/tools/mutant.sh" "$name" "$D/patch.diff" $ALL 2>&1)
    echo "$res" > "$OUT.$name.log"
    suite=$(echo "$res" | grep -o "repo test suite [a-zA-Z ]*([0-9]* tests ok)\|repo test suite FAILS[^(]*" | head -1)
    a=$(echo "$res" | grep " rc=1 " | awk '{print $2}' | tr '\n' ' ')
    i=$(echo "$res" | grep " rc=2 " | awk '{print $2}' | tr '\n' ' ')
    s=$(echo "$res" | grep -c " rc=0 ")
    echo "| $name | $suite | ${a:--} | ${i:--} | $s |" >> "$OUT"
    echo "$res" | grep " rc=1 " | cut -c1-300 | sed 's/^/    /' >> "$OUT.details"
done
