#!/bin/bash
# matrix_par.sh <glob under seeded/> <out.md> [lanes] : like `matrix.sh seeded`, restricted to the changes matching the
# glob and run in parallel lanes (each lane has its own scratch root); env NOREPLAY=1 / KEEP_FOUND=dir / SEEDS / EXTRA_CHECKS
# as for matrix.sh and mutant.sh. /repo itself is never modified.
HERE="$(cd "$(dirname "$0")/.." && pwd)"
GLOB="$1"; OUT="$2"; LANES="${3:-4}"
TMP=$(mktemp -d /tmp/matrixpar.XXXX)
ls -d "$HERE"/seeded/$GLOB/ | nl -w1 -s' ' > "$TMP/list"
run_one() {
    k="$1"; d="$2"; n=$(basename "$d"); own=${n%%-*}
    res=$(MUTROOT=/tmp/ppgmut-par$(( k % LANES )) NOTEST=${NOTEST:-1} "$HERE/tools/mutant.sh" "$n" "$d/patch.diff" $own ${EXTRA_CHECKS:-} 2>&1)
    caught=""; missed=""
    for c in $own ${EXTRA_CHECKS:-}; do
        nn=$(echo "$res" | grep -cE "^$n $c rc="); n1=$(echo "$res" | grep -cE "^$n $c rc=1 ")
        if [ "$nn" -gt 0 ] && [ "$n1" -eq "$nn" ]; then caught="$caught $c"; elif [ "$n1" -gt 0 ]; then caught="$caught $c($n1/$nn)"; else missed="$missed $c"; fi
    done
    first=$(echo "$res" | grep -E " rc=1 " | head -1 | sed -E 's/^[^ ]+ (C[0-9]+) rc=1 ([0-9.]+s) (.*)$/\1 in \2: \3/' | cut -c1-160)
    echo "| $n | ${caught:- -} | ${missed:- -} | $first |" > "$TMP/row.$k"
}
export -f run_one; export HERE LANES TMP
# lanes must not share a scratch root at the same time: lane = line number modulo LANES, one xargs per lane
for lane in $(seq 0 $((LANES-1))); do
    ( awk -v l=$lane -v L=$LANES '($1 % L)==l' "$TMP/list" | while read k d; do run_one "$k" "$d"; done ) &
done
wait
{
echo "# seeded matrix for seeded/$GLOB (quick tier${NOREPLAY:+, generated search alone - replay tier removed}${SEEDS:+, seeds $SEEDS}) - $(date -u +%F)"
echo; echo "| change | checks that report a violation | checks that stay silent | first report |"; echo "|---|---|---|---|"
for k in $(cut -d' ' -f1 "$TMP/list"); do cat "$TMP/row.$k"; done
} > "$OUT"
rm -rf "$TMP" /tmp/ppgmut-par*
