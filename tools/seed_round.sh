#!/bin/bash
# seed_round.sh <root with Cxx/seeded/{a,b}> <ids...> : confirm each seeded change and run the owning quick check against it
ROOT="$1"; shift
HERE="$(cd "$(dirname "$0")/.." && pwd)"
for id in "$@"; do
  for v in a b; do
    D="$ROOT/$id/seeded/$v"; [ -f "$D/patch.diff" ] || continue
    c=$(CONFIRM_LANE=${LANE:-0} "$HERE/tools/confirm_seed.sh" "$D" 2>&1 | tail -1)
    echo "CONFIRM $id/$v: $c"
    m=$(MUTROOT=/tmp/ppgmut-${LANE:-0} NOTEST=1 "$HERE/tools/mutant.sh" "$id-$v" "$D/patch.diff" $id ${EXTRA:-} 2>&1)
    echo "$m" | sed "s|^|DETECT $id/$v: |"
  done
done
