#![no_main]
//! Coverage-guided target: bytes -> Scenario (the same decoder proptest uses) ->
//! chain of evaluations against the real engine with ALL oracles in-target.
//! Crashes (panics) on any violation of the property selected by PPG_FUZZ_PROP
//! (default: any property) that is not a known finding.
use libfuzzer_sys::fuzz_target;
use ppgcheck::chain::{run_case, Mode};
use ppgcheck::gen::{decode, Profile, F_FLAKY};
use ppgcheck::runner::KnownFindings;
use std::sync::OnceLock;

struct Cfg {
    prop: String,
    mode: Mode,
    profile: Profile,
    known: KnownFindings,
}
static CFG: OnceLock<Cfg> = OnceLock::new();

fn cfg() -> &'static Cfg {
    CFG.get_or_init(|| {
        ppgcheck::driver::install_panic_hook();
        let prop = std::env::var("PPG_FUZZ_PROP").unwrap_or_else(|_| "ALL".to_string());
        let mode = match ppgcheck::runner::spec_for(&prop) {
            Some(s) => Mode::for_prop(s.prop),
            None => {
                let mut m = Mode::all();
                m.enum_c10 = false;
                m.probes_c20 = false;
                m
            }
        };
        let mut profile = ppgcheck::runner::fuzz_profile();
        if prop == "C16" {
            profile.force_off &= !F_FLAKY;
        }
        Cfg { prop, mode, profile, known: KnownFindings::load() }
    })
}

fuzz_target!(|data: &[u8]| {
    let c = cfg();
    let sc = decode(data, &c.profile);
    let out = run_case(&sc, &c.mode);
    for (step, v) in out.violations.iter() {
        if c.known.matches(v).is_some() {
            break;
        }
        if c.prop == "ALL" || v.prop == c.prop {
            panic!("PPG-VIOLATION {} at evaluation {}: {}", v.sig(), step, v.detail);
        }
    }
});
