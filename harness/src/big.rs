//! C19: sized graph shapes x kind mixes x cascade shapes, each case evaluated in a
//! child process (a stack overflow kills only that case) with the same driver,
//! reference model and post-hoc oracles as the small graphs.
use crate::chain::*;
use crate::driver::*;
use crate::gen::Src;
use crate::oracles::*;
use crate::scenario::*;
use crate::world::*;
use serde::{Deserialize, Serialize};

#[derive(Clone, Debug, Serialize, Deserialize, PartialEq, Eq)]
pub struct BigCase {
    /// 0 chain, 1 layered (fan <= 3), 2 fan-in, 3 fan-out, 4 chain with side inputs,
    /// 5 dense layers (root, then layers of `width` jobs, consecutive layers fully connected),
    /// 6 two-root fan-out (an Always job and an Ephemeral/Output job, every other job consumes both),
    /// 7 a needed Ephemeral (it feeds an Output) with a long tail of Ephemerals nobody needs hanging off it
    pub shape: u8,
    pub n: usize,
    pub width: usize,
    /// 0 all Output, 1 all Always, 2 alternating Output/Ephemeral, 3 periodic: `period` Ephemerals
    /// then an Output, 4 hash-random mix, 5 Always root then Outputs, 6 Ephemerals with Output sinks,
    /// 7 alternating Always/Output
    pub pattern: u8,
    pub period: u8,
    pub salt: u8,
    /// 0 first build, 1 up-to-date re-run, 2 invalidate first, 3 invalidate last, 4 fail root,
    /// 5 abort mid-way (then resume)
    pub cascade: u8,
    pub coarse_every: u8,
    pub stamps: bool,
    pub consumed: bool,
    pub outnames: bool,
}

pub const SHAPES: [&str; 8] = ["chain", "layered", "fan-in", "fan-out", "chain+side-inputs", "dense-layers", "two-root-fan-out", "needed-ephemeral-with-dangling-tail"];
pub const CASCADES: [&str; 6] = ["first-build", "up-to-date-rerun", "invalidate-first", "invalidate-last", "fail-root", "abort-midway+resume"];

fn log_size(b1: u8, b2: u8, lo: usize, hi: usize) -> usize {
    // log-uniform between lo and hi
    let f = ((b1 as f64) * 256.0 + b2 as f64) / 65536.0;
    let v = (lo as f64) * ((hi as f64) / (lo as f64)).powf(f);
    (v as usize).clamp(lo, hi)
}

pub fn decode_big(data: &[u8], max_n: usize) -> BigCase {
    let mut s = Src::new(data);
    let shape = s.below(8) as u8;
    let (b1, b2) = (s.u8(), s.u8());
    let cap = match shape {
        2 => max_n.min(6000), // the engine is quadratic in the fan-in of one job
        6 => max_n.min(8000), // ... and in the fan-out of an Ephemeral
        7 => max_n.min(12000), // pruning a dangling tail is quadratic in its length
        5 => max_n.min(1500), // edges grow with width^2
        _ => max_n,
    };
    let n = log_size(b1, b2, 61.min(cap), cap);
    let width = match shape {
        1 => {
            let w = log_size(s.u8(), s.u8(), 2, (n / 2).max(2));
            w
        }
        5 => log_size(s.u8(), s.u8(), 8, (n / 2).clamp(8, 400)),
        _ => {
            s.u8();
            s.u8();
            1
        }
    };
    BigCase {
        shape,
        n,
        width,
        pattern: s.below(8) as u8,
        period: 1 + s.below(9) as u8,
        salt: s.u8(),
        cascade: s.below(6) as u8,
        coarse_every: s.below(6) as u8,
        stamps: s.u8() >= 128,
        consumed: s.u8() >= 128,
        outnames: s.u8() >= 128,
    }
}

fn kind_at(c: &BigCase, i: usize, is_sink: bool, layer: usize) -> Kind {
    if c.shape == 7 {
        // root (Always or Output by pattern), the needed Ephemeral, its Output consumer, then the tail
        return match i {
            0 => if c.pattern % 2 == 0 { Kind::Always } else { Kind::Output },
            2 => Kind::Output,
            _ => Kind::Ephemeral,
        };
    }
    if c.shape == 6 && i < 2 {
        // many jobs invalidated (or not) in one round by the Always root, all needing the second root
        return if i == 0 {
            Kind::Always
        } else if c.pattern % 2 == 0 {
            Kind::Ephemeral
        } else {
            Kind::Output
        };
    }
    let pos = if c.shape == 1 || c.shape == 5 { layer } else { i };
    // dense layers: no runs of all-Ephemeral layers (the engine's unmemoised recursions are
    // exponential in the number of Ephemeral-only paths: time, not verdict)
    let pattern = if c.shape == 5 { [0u8, 1, 2, 2, 7, 5, 2, 7][c.pattern as usize % 8] } else { c.pattern };
    match pattern {
        0 => Kind::Output,
        1 => Kind::Always,
        2 => {
            if pos % 2 == 0 {
                Kind::Output
            } else {
                Kind::Ephemeral
            }
        }
        3 => {
            if pos % (c.period as usize + 1) == c.period as usize {
                Kind::Output
            } else {
                Kind::Ephemeral
            }
        }
        4 => {
            let h = hash_u64s([i as u64, c.salt as u64, 17]);
            // in layered graphs long all-Ephemeral regions make the engine's unmemoised
            // recursions exponential: at least every 8th layer is not Ephemeral
            if c.shape == 1 && layer % 8 == 7 {
                return Kind::Output;
            }
            match h % 4 {
                0 => Kind::Always,
                1 | 2 => Kind::Output,
                _ => Kind::Ephemeral,
            }
        }
        5 => {
            if pos == 0 {
                Kind::Always
            } else {
                Kind::Output
            }
        }
        6 => {
            if is_sink {
                Kind::Output
            } else if c.shape == 1 && layer % 8 == 7 {
                Kind::Output
            } else {
                Kind::Ephemeral
            }
        }
        _ => {
            if pos % 2 == 0 {
                Kind::Always
            } else {
                Kind::Output
            }
        }
    }
}

pub fn build_big(c: &BigCase) -> Scenario {
    let n = c.n;
    let mut slots = Vec::with_capacity(n);
    let mut init = Vec::with_capacity(n);
    let w = c.width.max(1);
    for i in 0..n {
        let layer = if c.shape == 5 { if i == 0 { 0 } else { (i - 1) / w + 1 } } else { i / w };
        let mut deps: Vec<(usize, u8)> = vec![];
        let is_sink;
        match c.shape {
            0 => {
                if i > 0 {
                    deps.push((i - 1, 1));
                }
                is_sink = i == n - 1;
            }
            1 => {
                if layer > 0 {
                    let base = (layer - 1) * w;
                    let k = i % w;
                    let mut ks = vec![k, (k + 1) % w, (k + 1 + (c.salt as usize % 5)) % w];
                    ks.sort();
                    ks.dedup();
                    for kk in ks {
                        deps.push((base + kk, 1));
                    }
                }
                is_sink = (layer + 1) * w >= n;
            }
            2 => {
                if i == n - 1 {
                    for u in 0..n - 1 {
                        deps.push((u, 1));
                    }
                }
                is_sink = i == n - 1;
            }
            3 => {
                if i > 0 {
                    deps.push((0, 1));
                }
                is_sink = i > 0;
            }
            6 => {
                if i >= 2 {
                    deps.push((0, 1));
                    deps.push((1, 1));
                }
                is_sink = i >= 2;
            }
            7 => {
                match i {
                    0 => {}
                    1 | 2 => deps.push((i - 1, 1)),
                    3 => deps.push((1, 1)),
                    _ => deps.push((i - 1, 1)),
                }
                is_sink = i == 2 || i == n - 1;
            }
            5 => {
                if layer == 1 {
                    deps.push((0, 1));
                } else if layer > 1 {
                    let base = 1 + (layer - 2) * w;
                    for u in base..(base + w).min(n) {
                        deps.push((u, 1));
                    }
                }
                is_sink = 1 + layer * w >= n;
            }
            _ => {
                // chain on the even slots, every odd slot is a side input of the next chain link
                if i >= 2 && i % 2 == 0 {
                    deps.push((i - 2, 1));
                    deps.push((i - 1, 1));
                }
                is_sink = i + 2 >= n && i % 2 == 0;
            }
        }
        let kind = kind_at(c, i, is_sink, layer);
        let coarse = c.coarse_every > 0 && i % (c.coarse_every as usize + 1) == c.coarse_every as usize;
        slots.push(SlotDef { kind, coarse, ign: vec![], flaky: false });
        init.push(SlotInit { active: true, parts: 1, deps });
    }
    let cfg = Config {
        scope: if c.consumed { Scope::Consumed } else { Scope::Whole },
        stamps: c.stamps,
        names: if c.outnames { Names::Outputs } else { Names::JobIds },
        anon: false,
    };
    let sched = Sched { choices: vec![], max_running: 255, ack_mode: 0, decl: vec![], exact: false };
    let plain = Plan { fail: 0, fail_mode: 0, abort: None, sched: sched.clone(), alts: vec![] };
    let mut steps = vec![Step { edits: vec![], plan: plain.clone() }];
    let first_output = (0..n).find(|i| slots[*i].kind == Kind::Output);
    let last_output = (0..n).rev().find(|i| slots[*i].kind == Kind::Output);
    match c.cascade {
        0 => {}
        1 => steps.push(Step { edits: vec![], plan: plain.clone() }),
        2 => {
            let e = if slots[0].kind == Kind::Always {
                vec![Edit::Bump(0)]
            } else if let Some(f) = first_output {
                vec![Edit::Delete(f, 7)]
            } else {
                vec![]
            };
            steps.push(Step { edits: e, plan: plain.clone() });
        }
        3 => {
            let e = match last_output {
                Some(l) => vec![Edit::Delete(l, 7)],
                None => vec![],
            };
            steps.push(Step { edits: e, plan: plain.clone() });
        }
        4 => {
            // make sure the root is executed (and so can fail), then fail it
            let e = if slots[0].kind == Kind::Always { vec![] } else { vec![Edit::Delete(0, 7)] };
            let mut p = plain.clone();
            p.fail = 1;
            steps.push(Step { edits: e, plan: p });
            steps.push(Step { edits: vec![], plan: plain.clone() });
        }
        _ => {
            let e = if slots[0].kind == Kind::Always { vec![Edit::Bump(0)] } else { vec![Edit::Delete(0, 7)] };
            let mut p = plain.clone();
            p.abort = Some(((n / 2) as u32, c.salt % 2 == 0));
            steps.push(Step { edits: e, plan: p });
            steps.push(Step { edits: vec![], plan: plain.clone() });
        }
    }
    Scenario { cfg, slots, init, steps, motif: 0 }
}

#[derive(Clone, Debug, Serialize, Deserialize, Default)]
pub struct BigResult {
    pub violations: Vec<(usize, String, String)>,
    pub evals: usize,
    pub jobs: usize,
    pub depth: usize,
    pub executed_per_step: Vec<usize>,
    pub wall_ms: u128,
}

fn graph_depth(w: &World) -> usize {
    let mut d = vec![0usize; w.n()];
    let mut m = 0;
    for s in w.active() {
        let mut x = 1;
        for (u, _) in w.deps_of(s) {
            x = x.max(d[u] + 1);
        }
        d[s] = x;
        m = m.max(x);
    }
    m
}

/// evaluate one big case in this process (called in the child)
pub fn run_big(c: &BigCase) -> BigResult {
    let t0 = std::time::Instant::now();
    let sc = build_big(c);
    let mut out = BigResult::default();
    let opts = Opts { monitors: false, probes: false, batch: 1_000_000 };
    let mut w = World::new(&sc);
    out.jobs = w.active().len();
    out.depth = graph_depth(&w);
    for (i, step) in sc.steps.iter().enumerate() {
        for e in step.edits.iter() {
            w.apply_edit(e);
        }
        let pre = w.clone();
        let mut o = opts.clone();
        if step.plan.abort.is_some() {
            o.batch = 50; // finer grained, so that the abort hits a mixed state
        }
        let mut res = safe_eval(&mut w, &step.plan, &step.plan.sched, &o);
        out.evals += 1;
        let _ = posthoc(&pre, &w, &mut res);
        out.executed_per_step.push(res.executed.len());
        for v in res.violations.iter() {
            if out.violations.len() < 5 {
                let d: String = v.detail.chars().take(300).collect();
                out.violations.push((i, v.sig(), d));
            }
        }
        match (&res.new_history, res.engine_error.is_none()) {
            (Some(h), true) => w.history = h.clone(),
            _ => break,
        }
    }
    out.wall_ms = t0.elapsed().as_millis();
    out
}

/// length of the longest run of consecutive Ephemeral jobs along a plain chain (0 for other shapes)
pub fn longest_ephemeral_run(c: &BigCase) -> usize {
    if c.shape != 0 {
        return 0;
    }
    let (mut best, mut cur) = (0usize, 0usize);
    for i in 0..c.n {
        if kind_at(c, i, i == c.n - 1, i) == Kind::Ephemeral {
            cur += 1;
            best = best.max(cur);
        } else {
            cur = 0;
        }
    }
    best
}

pub fn describe_big(c: &BigCase) -> String {
    format!(
        "{} n={} width={} kinds=pattern{}(period {}) cascade={} coarse_every={} stamps={} consumed-only={} output-names={}",
        SHAPES[c.shape as usize % 8], c.n, c.width, c.pattern, c.period, CASCADES[c.cascade as usize % 6], c.coarse_every, c.stamps, c.consumed, c.outnames
    )
}

/// shrink a failing big case: smaller n / width first, then simpler configuration
pub fn shrink_big(c: &BigCase, fails: &mut dyn FnMut(&BigCase) -> bool) -> BigCase {
    let mut cur = c.clone();
    loop {
        let mut cands: Vec<BigCase> = vec![];
        for f in [2usize, 4, 16] {
            if cur.n / f >= 3 {
                let mut x = cur.clone();
                x.n = cur.n - cur.n / f;
                cands.push(x);
            }
        }
        if cur.n > 3 {
            let mut x = cur.clone();
            x.n -= 1;
            cands.push(x);
        }
        if cur.width > 2 {
            let mut x = cur.clone();
            x.width = (cur.width / 2).max(2);
            cands.push(x);
        }
        for (a, b) in [(cur.stamps, 0), (cur.consumed, 1), (cur.outnames, 2)] {
            if a {
                let mut x = cur.clone();
                match b {
                    0 => x.stamps = false,
                    1 => x.consumed = false,
                    _ => x.outnames = false,
                }
                cands.push(x);
            }
        }
        if cur.coarse_every != 0 {
            let mut x = cur.clone();
            x.coarse_every = 0;
            cands.push(x);
        }
        if cur.pattern != 0 {
            let mut x = cur.clone();
            x.pattern = 0;
            cands.push(x);
        }
        if cur.shape != 0 {
            let mut x = cur.clone();
            x.shape = 0;
            x.width = 1;
            cands.push(x);
        }
        let mut progressed = false;
        for x in cands {
            if fails(&x) {
                cur = x;
                progressed = true;
                break;
            }
        }
        if !progressed {
            return cur;
        }
    }
}
