//! Parent side of the C19 check: generates sized cases with proptest, evaluates each
//! in a child process, shrinks failures, writes evidence.
use crate::big::*;
use crate::runner::*;
use proptest::strategy::{Strategy, ValueTree};
use proptest::test_runner::{Config, RngAlgorithm, TestRng, TestRunner};
use serde::{Deserialize, Serialize};
use std::io::Read;
use std::process::{Command, Stdio};
use std::sync::atomic::{AtomicUsize, Ordering};
use std::sync::Mutex;
use std::time::{Duration, Instant};

#[derive(Clone, Debug, Serialize, Deserialize)]
pub struct BigReplay {
    pub property: String,
    pub signature: String,
    pub detail: String,
    pub found_by: String,
    pub big_case: BigCase,
}

#[derive(Debug)]
pub enum ChildOutcome {
    Ok(BigResult),
    Crash(String),
    Timeout,
}

pub fn run_child(c: &BigCase, timeout: Duration) -> ChildOutcome {
    let exe = std::env::current_exe().expect("current_exe");
    let mut child = Command::new(exe)
        .arg("c19-child")
        .arg(serde_json::to_string(c).unwrap())
        .stdout(Stdio::piped())
        .stderr(Stdio::null())
        .spawn()
        .expect("cannot spawn child");
    let t0 = Instant::now();
    loop {
        match child.try_wait() {
            Ok(Some(status)) => {
                let mut s = String::new();
                if let Some(mut o) = child.stdout.take() {
                    let _ = o.read_to_string(&mut s);
                }
                if status.success() {
                    return match serde_json::from_str::<BigResult>(s.trim()) {
                        Ok(r) => ChildOutcome::Ok(r),
                        Err(_) => ChildOutcome::Timeout,
                    };
                }
                // only a death by a signal that a crash of the engine produces (stack overflow: SIGABRT /
                // SIGSEGV, SIGBUS) is a crash; a panic of the harness itself (exit code 101), a kill by the
                // OOM killer (SIGKILL) or anything else is inconclusive
                use std::os::unix::process::ExitStatusExt;
                return match status.signal() {
                    Some(6) | Some(11) | Some(7) => ChildOutcome::Crash(format!("child ended with {}", status)),
                    _ => ChildOutcome::Timeout,
                };
            }
            Ok(None) => {
                if t0.elapsed() > timeout {
                    let _ = child.kill();
                    let _ = child.wait();
                    return ChildOutcome::Timeout;
                }
                std::thread::sleep(Duration::from_millis(5));
            }
            Err(e) => return ChildOutcome::Crash(format!("wait failed: {}", e)),
        }
    }
}

/// a crash of the child as a violation (the detail carries the case, and a tag for the one class of
/// input that is a recorded finding: a plain chain with a very long run of consecutive Ephemerals)
fn crash_violation(c: &BigCase, m: &str) -> crate::driver::Violation {
    let run = longest_ephemeral_run(c);
    let tag = if run >= 50_000 { " :: deep-ephemeral-chain" } else { "" };
    crate::driver::Violation { prop: "C19", clause: "crash".into(), detail: format!("{} :: {} :: longest run of consecutive Ephemerals {}{}", m, describe_big(c), run, tag) }
}

fn first_violation(c: &BigCase, o: &ChildOutcome, known: &KnownFindings) -> Option<(String, String)> {
    match o {
        ChildOutcome::Ok(r) => {
            for (step, sig, d) in r.violations.iter() {
                let v = crate::driver::Violation { prop: "C19", clause: sig.clone(), detail: d.clone() };
                if known.matches(&v).is_some() {
                    return None;
                }
                return Some((format!("C19/{}", sig), format!("evaluation {}: {}", step, d)));
            }
            None
        }
        ChildOutcome::Crash(m) => {
            let v = crash_violation(c, m);
            if known.matches(&v).is_some() {
                return None;
            }
            Some(("C19/crash".to_string(), v.detail))
        }
        ChildOutcome::Timeout => None,
    }
}

pub struct BigRun {
    pub cases: usize,
    pub evals: usize,
    pub timeouts: usize,
    pub known_hits: usize,
    pub distinct: std::collections::HashSet<(u8, u8, u8, usize)>,
    pub samples: Vec<serde_json::Value>,
    pub max_jobs: usize,
    pub max_depth: usize,
    pub by_cascade: std::collections::BTreeMap<String, usize>,
    pub by_shape: std::collections::BTreeMap<String, usize>,
    pub violation: Option<BigReplay>,
}

pub fn bucket(n: usize) -> usize {
    (usize::BITS - n.leading_zeros()) as usize
}

pub fn run_c19(cases: usize, max_n: usize, seed: u64, threads: usize, timeout: Duration, extra: Vec<BigCase>) -> BigRun {
    let known = KnownFindings::load();
    // generate all cases up front (proptest is the only source of randomness)
    let strategy = proptest::collection::vec(proptest::num::u8::ANY, 16..=16);
    let mut seedb = [0u8; 32];
    seedb[..8].copy_from_slice(&seed.to_le_bytes());
    seedb[8] = 19;
    let mut runner = TestRunner::new_with_rng(Config::default(), TestRng::from_seed(RngAlgorithm::ChaCha, &seedb));
    let mut all: Vec<BigCase> = extra;
    if cases > 0 {
        all.extend(corner_cases(max_n));
    }
    for _ in 0..cases {
        let bytes = strategy.new_tree(&mut runner).unwrap().current();
        all.push(decode_big(&bytes, max_n));
    }
    let next = AtomicUsize::new(0);
    let results: Mutex<Vec<(usize, ChildOutcome)>> = Mutex::new(vec![]);
    std::thread::scope(|sc| {
        for _ in 0..threads {
            sc.spawn(|| loop {
                let i = next.fetch_add(1, Ordering::Relaxed);
                if i >= all.len() {
                    break;
                }
                // the probe of the recorded finding either dies at once or (should the recursion ever be
                // removed) runs for many minutes: a short budget, inconclusive when exceeded
                let t = if longest_ephemeral_run(&all[i]) >= 50_000 { timeout.min(Duration::from_secs(120)) } else { timeout };
                let o = run_child(&all[i], t);
                results.lock().unwrap().push((i, o));
            });
        }
    });
    let mut results = results.into_inner().unwrap();
    results.sort_by_key(|x| x.0);
    let mut run = BigRun {
        cases: all.len(),
        evals: 0,
        timeouts: 0,
        known_hits: 0,
        distinct: Default::default(),
        samples: vec![],
        max_jobs: 0,
        max_depth: 0,
        by_cascade: Default::default(),
        by_shape: Default::default(),
        violation: None,
    };
    let mut failing: Option<(usize, String, String)> = None;
    for (i, o) in results.iter() {
        let c = &all[*i];
        match o {
            ChildOutcome::Ok(r) => {
                run.evals += r.evals;
                run.max_jobs = run.max_jobs.max(r.jobs);
                run.max_depth = run.max_depth.max(r.depth);
                *run.by_cascade.entry(CASCADES[c.cascade as usize % 6].to_string()).or_insert(0) += 1;
                *run.by_shape.entry(SHAPES[c.shape as usize % 8].to_string()).or_insert(0) += 1;
                if r.jobs > 60 {
                    run.distinct.insert((c.shape, c.pattern, c.cascade, bucket(r.jobs)));
                }
                if run.samples.len() < 4 && r.jobs > 60 {
                    run.samples.push(serde_json::json!({
                        "case": describe_big(c),
                        "jobs": r.jobs,
                        "depth": r.depth,
                        "executed_per_evaluation": r.executed_per_step,
                        "wall_ms": r.wall_ms as u64,
                    }));
                }
                if r.violations.iter().any(|(_, sig, d)| known.matches(&crate::driver::Violation { prop: "C19", clause: sig.clone(), detail: d.clone() }).is_some()) {
                    run.known_hits += 1;
                }
            }
            ChildOutcome::Timeout => run.timeouts += 1,
            ChildOutcome::Crash(m) => {
                if known.matches(&crash_violation(c, m)).is_some() {
                    run.known_hits += 1;
                }
            }
        }
        if failing.is_none() {
            if let Some((sig, d)) = first_violation(c, o, &known) {
                failing = Some((*i, sig, d));
            }
        }
    }
    if let Some((i, sig, detail)) = failing {
        let sig0 = sig.clone();
        let mut pred = |c: &BigCase| -> bool {
            let o = run_child(c, timeout);
            matches!(first_violation(c, &o, &known), Some((s, _)) if s == sig0)
        };
        let small = shrink_big(&all[i], &mut pred);
        let d2 = match first_violation(&small, &run_child(&small, timeout), &known) {
            Some((_, d)) => d,
            None => detail,
        };
        run.violation = Some(BigReplay {
            property: "C19".into(),
            signature: sig,
            detail: d2,
            found_by: format!("proptest seed={} (sized cases; shrunk by halving sizes and simplifying the configuration)", seed),
            big_case: small,
        });
    }
    run
}

/// the boundary of the size domain, enumerated: every shape at the largest size of the tier x
/// every cascade x three kind patterns (random cases seldom hit "largest width AND this cascade")
pub fn corner_cases(max_n: usize) -> Vec<BigCase> {
    let mut v = vec![];
    for shape in 0u8..8 {
        let (n, width) = match shape {
            1 => (max_n, ((max_n as f64).sqrt() as usize).max(2)),
            2 => (max_n.min(6000), 1),
            6 => (max_n.min(8000), 1),
            7 => (max_n.min(12000), 1),
            5 => {
                let w = (max_n / 20).clamp(20, 400);
                (1 + 3 * w, w)
            }
            _ => (max_n, 1),
        };
        for cascade in 0u8..6 {
            for pattern in [0u8, 5, 2] {
                v.push(BigCase { shape, n, width, pattern, period: 1, salt: cascade, cascade, coarse_every: 0, stamps: false, consumed: false, outnames: false });
            }
        }
    }
    v
}

pub fn big_replay_files() -> Vec<std::path::PathBuf> {
    replay_files("C19")
}

pub fn load_big_replay(p: &std::path::Path) -> Result<BigReplay, String> {
    let s = std::fs::read_to_string(p).map_err(|e| format!("{}: {}", p.display(), e))?;
    serde_json::from_str(&s).map_err(|e| format!("{}: {}", p.display(), e))
}

pub fn write_big_replay(rp: &BigReplay) -> String {
    let dir = format!("{}/replays/found", verif_dir());
    let _ = std::fs::create_dir_all(&dir);
    let h = crate::world::hstr(&serde_json::to_string(&rp.big_case).unwrap());
    let path = format!("{}/C19-{:012x}.json", dir, h & 0xffff_ffff_ffff);
    std::fs::write(&path, serde_json::to_string_pretty(rp).unwrap()).expect("cannot write replay file");
    path
}
