//! Interpreter for a whole scenario (a chain of evaluations) under the mode of one
//! check: runs the evaluations, the post-hoc oracles, and the differential twins the
//! property needs; classifies evaluations (non-triviality) and collects violations.
use crate::driver::*;
use crate::model::*;
use crate::oracles::*;
use crate::scenario::*;
use crate::world::*;
use std::collections::{BTreeMap, BTreeSet};

#[derive(Clone, Debug)]
pub struct Mode {
    pub prop: &'static str,
    pub twin_c07: bool,
    pub twin_c09: bool,
    pub twin_c12: bool,
    pub twin_c14: bool,
    pub twin_c15: bool,
    pub followup_c08: bool,
    pub enum_c10: bool,
    pub probes_c20: bool,
    /// enumerate ALL schedules (driver action interleavings incl. ack timing, up to 3 jobs
    /// running) of evaluations with at most `enum_jobs` jobs, up to `enum_cap` schedules each
    pub enum_cap: usize,
    pub enum_jobs: usize,
}

impl Mode {
    pub fn for_prop(prop: &'static str) -> Mode {
        Mode {
            prop,
            twin_c07: prop == "C07",
            twin_c09: prop == "C09",
            twin_c12: prop == "C12",
            twin_c14: prop == "C14" || prop == "C15",
            twin_c15: prop == "C15",
            followup_c08: prop == "C08",
            enum_c10: prop == "C10",
            probes_c20: prop == "C20",
            enum_cap: 0,
            enum_jobs: 0,
        }
    }
    pub fn all() -> Mode {
        Mode {
            prop: "ALL",
            twin_c07: true,
            twin_c09: true,
            twin_c12: true,
            twin_c14: true,
            twin_c15: true,
            followup_c08: true,
            enum_c10: true,
            probes_c20: true,
            enum_cap: 0,
            enum_jobs: 0,
        }
    }
}

#[derive(Clone, Debug, Default)]
pub struct CaseOut {
    /// (step, violation)
    pub violations: Vec<(usize, Violation)>,
    /// evaluations run against the engine (including twins)
    pub evals: usize,
    /// evaluations of the main chain
    pub main_evals: usize,
    /// canonical forms of the non-trivial evaluations (by the rule of the mode's property)
    pub nontrivial: Vec<u64>,
    pub counters: BTreeMap<&'static str, usize>,
    pub sample: Option<serde_json::Value>,
}

impl CaseOut {
    fn count(&mut self, k: &'static str) {
        *self.counters.entry(k).or_insert(0) += 1;
    }
    fn add(&mut self, k: &'static str, n: usize) {
        *self.counters.entry(k).or_insert(0) += n;
    }
}

fn no_fault(plan: &Plan) -> Plan {
    let mut p = plan.clone();
    p.fail = 0;
    p.abort = None;
    p
}

fn alt(plan: &Plan, i: usize) -> Sched {
    plan.alts.get(i).cloned().unwrap_or_else(|| plan.sched.clone())
}

pub fn canonical(w: &World, res: &EvalOut, h_in: &BTreeMap<String, String>, extra: u64) -> u64 {
    let act = w.active();
    let idx: BTreeMap<usize, usize> = act.iter().enumerate().map(|(i, s)| (*s, i)).collect();
    let mut v: Vec<u64> = vec![
        extra,
        w.cfg.stamps as u64,
        (w.cfg.scope == Scope::Consumed) as u64,
        (w.cfg.names == Names::Outputs) as u64 + 2 * w.cfg.anon as u64,
    ];
    for s in act.iter() {
        let id = w.id(*s);
        v.push(w.kind(*s) as u64);
        v.push(w.parts(*s).count_ones() as u64);
        v.push(res.disp.get(&id).map(|d| *d as u64 + 1).unwrap_or(0));
        v.push(h_in.contains_key(&id) as u64);
        for (u, _) in w.deps_of(*s) {
            v.push(1000 + idx[&u] as u64);
        }
        v.push(999);
    }
    hash_u64s(v)
}

pub fn describe_graph(w: &World) -> Vec<String> {
    w.active()
        .iter()
        .map(|s| {
            let deps: Vec<String> = w.deps_of(*s).iter().map(|(u, _)| w.id(*u)).collect();
            format!("{} {:?}{} <- [{}]", w.id(*s), w.kind(*s), if w.defs[*s].coarse { " coarse" } else { "" }, deps.join(", "))
        })
        .collect()
}

fn sample_of(w: &World, step: usize, res: &EvalOut, edits: &[Edit]) -> serde_json::Value {
    serde_json::json!({
        "config": format!("{:?}", w.cfg),
        "evaluation_index": step,
        "edits_before": format!("{:?}", edits),
        "graph": describe_graph(w),
        "events": res.events,
        "dispositions": res.disp.iter().map(|(k, v)| format!("{}={:?}", k, v)).collect::<Vec<_>>(),
    })
}

fn failed_ancestors(w: &World, failed: &BTreeSet<String>) -> BTreeSet<usize> {
    let mut bad = BTreeSet::new();
    for s in w.active() {
        for (u, _) in w.deps_of(s) {
            if bad.contains(&u) || failed.contains(&w.id(u)) {
                bad.insert(s);
            }
        }
    }
    bad
}

pub fn run_case(sc: &Scenario, mode: &Mode) -> CaseOut {
    let mut out = CaseOut::default();
    let opts = Opts {
        monitors: true,
        probes: mode.probes_c20,
        batch: 0,
    };
    let plain = Opts {
        monitors: true,
        probes: false,
        batch: 0,
    };
    let mut w = World::new(sc);
    let mut w15 = if mode.twin_c15 && sc.cfg.stamps {
        let mut s2 = sc.clone();
        s2.cfg.stamps = false;
        Some(World::new(&s2))
    } else {
        None
    };
    let mut prev_unclean = false;
    match sc.motif {
        1 => out.count("scenarios_with_motif_late_needed_ephemeral"),
        2 => out.count("scenarios_with_motif_ephemeral_chain"),
        3 => out.count("scenarios_with_motif_shared_ephemeral_concurrent"),
        4 => out.count("scenarios_with_motif_fan_in"),
        5 => out.count("scenarios_with_motif_dependency_removed_and_put_back"),
        6 => out.count("scenarios_with_motif_convergent_chains"),
        100 => out.count("scenarios_mutated_from_regression_corpus"),
        _ => out.count("scenarios_without_motif"),
    }
    for (i, step) in sc.steps.iter().enumerate() {
        w.deleted_in_step.clear();
        if let Some(w2) = w15.as_mut() {
            w2.deleted_in_step.clear();
        }
        for e in step.edits.iter() {
            w.apply_edit(e);
            if let Some(w2) = w15.as_mut() {
                w2.apply_edit(e);
            }
        }
        if w.active().is_empty() {
            continue;
        }
        let pre = w.clone();
        let plan = &step.plan;
        let mut res = safe_eval(&mut w, plan, &plan.sched, &opts);
        out.evals += 1;
        out.main_evals += 1;
        let ph = posthoc(&pre, &w, &mut res);
        let mut vs: Vec<Violation> = res.violations.clone();
        let clean = res.clean();
        let tainted = w.tainted;
        let ids = res.ids.clone();
        let h_in = &pre.history;

        // ------------------------------------------------ twins
        if mode.probes_c20 && res.engine_error.is_none() {
            let mut wt = pre.clone();
            let rt = safe_eval(&mut wt, plan, &plan.sched, &plain);
            out.evals += 1;
            if rt.engine_error.is_none() {
                let differs = rt.disp != res.disp || rt.new_history != res.new_history || wt.disk != w.disk;
                if differs {
                    // The engine's own hash iteration order can change *when* a job is first offered
                    // (seen on the unchanged tree: the ready set after event_startup of one and the same
                    // graph and history is {a} or {a, b} from run to run), and with a failure in the
                    // evaluation that changes the outcome under one and the same choice stream. Only an
                    // outcome that no probe-free repetition reaches, while no repetition of the probed run
                    // reaches a probe-free one, is attributed to the probes.
                    let mut free: Vec<(BTreeMap<String, Disp>, Option<BTreeMap<String, String>>, BTreeMap<String, u64>)> = vec![(rt.disp.clone(), rt.new_history.clone(), wt.disk.clone())];
                    let mut probed = vec![(res.disp.clone(), res.new_history.clone(), w.disk.clone())];
                    for _ in 0..10 {
                        let mut wa = pre.clone();
                        let ra = safe_eval(&mut wa, plan, &plan.sched, &plain);
                        free.push((ra.disp.clone(), ra.new_history.clone(), wa.disk.clone()));
                        let mut wb = pre.clone();
                        let rb = safe_eval(&mut wb, plan, &plan.sched, &opts);
                        probed.push((rb.disp.clone(), rb.new_history.clone(), wb.disk.clone()));
                        out.evals += 2;
                    }
                    if probed.iter().any(|p| free.contains(p)) {
                        out.add("c20_twin_differences_explained_by_engine_nondeterminism", 1);
                    } else if rt.disp != res.disp {
                        vs.push(Violation { prop: "C20", clause: "outcome-differs-from-probe-free-run/dispositions".into(), detail: format!("{:?} vs {:?}", res.disp, rt.disp) });
                    } else if rt.new_history != res.new_history {
                        vs.push(Violation { prop: "C20", clause: "outcome-differs-from-probe-free-run/history".into(), detail: String::new() });
                    } else {
                        vs.push(Violation { prop: "C20", clause: "outcome-differs-from-probe-free-run/disk".into(), detail: String::new() });
                    }
                }
            }
        }
        if mode.twin_c07 && !res.failed.is_empty() && !res.aborted && res.eco.is_empty() && res.engine_error.is_none() && !tainted {
            let mut w5 = pre.clone();
            let mut p5 = plan.clone();
            p5.fail = 0;
            p5.abort = None; // the main run finished before its abort point; the twin must not be cut short
            let r5 = safe_eval(&mut w5, &p5, &plan.sched, &plain);
            out.evals += 1;
            if r5.engine_error.is_none() {
                let bad = failed_ancestors(&w, &res.failed);
                for s2 in w.active() {
                    let id = w.id(s2);
                    if !bad.contains(&s2) && w.kind(s2) != Kind::Ephemeral && !res.failed.contains(&id) {
                        if res.executed.contains(&id) != r5.executed.contains(&id) {
                            vs.push(Violation {
                                prop: "C07",
                                clause: format!("unaffected-job-treated-differently/{:?}", w.kind(s2)),
                                detail: format!("{} executed with failures: {}, without: {}", id, res.executed.contains(&id), r5.executed.contains(&id)),
                            });
                        }
                    }
                }
            }
        }
        if mode.followup_c08 && !res.failed.is_empty() && res.new_history.is_some() {
            let mut wf = w.clone();
            wf.history = res.new_history.clone().unwrap();
            let pf = no_fault(plan);
            let rf = safe_eval(&mut wf, &pf, &plan.sched, &plain);
            out.evals += 1;
            if rf.engine_error.is_none() && rf.failed.is_empty() {
                for j in res.failed.iter() {
                    if !rf.executed.contains(j) {
                        vs.push(Violation { prop: "C08", clause: "failed-job-not-executed-again".into(), detail: format!("{} failed, next evaluation left it {:?}", j, rf.disp.get(j)) });
                    }
                }
            }
            for v in rf.violations.iter() {
                if v.prop == "C06" {
                    vs.push(Violation { prop: "C06", clause: format!("followup/{}", v.clause), detail: v.detail.clone() });
                }
            }
        }
        let mut c09_nontrivial = false;
        if mode.twin_c09 && (!res.failed.is_empty() || res.aborted) && res.eco.is_empty() && res.engine_error.is_none() && res.new_history.is_some() && !tainted {
            let mut wu = pre.clone();
            let pu = no_fault(plan);
            let ru = safe_eval(&mut wu, &pu, &plan.sched, &plain);
            let mut wr = w.clone();
            wr.history = res.new_history.clone().unwrap();
            let rr = safe_eval(&mut wr, &pu, &alt(plan, 0), &plain);
            out.evals += 2;
            for v in rr.violations.iter().chain(ru.violations.iter()) {
                if v.prop == "C06" {
                    vs.push(Violation { prop: "C06", clause: format!("resume/{}", v.clause), detail: v.detail.clone() });
                }
            }
            if ru.engine_error.is_none() && rr.engine_error.is_none() && !wu.tainted && !wr.tainted {
                for j in rr.executed.iter() {
                    if !ru.executed.contains(j) {
                        let k = ids.get(j).map(|s| format!("{:?}", w.kind(*s))).unwrap_or_default();
                        vs.push(Violation { prop: "C09", clause: format!("resume-executes-job-the-uninterrupted-run-would-not/{}", k), detail: format!("{}; interrupted run left it {:?}; resume events {:?}", j, res.disp.get(j), rr.events) });
                    }
                    if res.succeeded.contains(j) && ids.get(j).map(|s| w.kind(*s) == Kind::Output).unwrap_or(false) {
                        vs.push(Violation { prop: "C09", clause: "resume-reexecutes-succeeded-output-job".into(), detail: j.clone() });
                    }
                }
                if rr.clean() {
                    if wr.disk != wu.disk {
                        let diff: Vec<String> = wr.disk.iter().filter(|(k, v)| wu.disk.get(*k) != Some(v)).map(|(k, _)| k.clone()).collect();
                        vs.push(Violation { prop: "C09", clause: "outputs-differ-from-uninterrupted-run".into(), detail: format!("{:?}", diff) });
                    }
                    if let (Some(hr), Some(hu)) = (&rr.new_history, &ru.new_history) {
                        if let Err((what, d)) = history_equal(&w, hr, hu) {
                            vs.push(Violation { prop: "C09", clause: format!("history-differs-from-uninterrupted-run/{}", what), detail: d });
                        }
                    }
                }
            }
            let never_started_utd = res.disp.iter().any(|(j, d)| (*d == Disp::Aborted || *d == Disp::UpstreamFailed) && ph.model.as_ref().map(|m| m.utd.contains(j)).unwrap_or(false));
            c09_nontrivial = never_started_utd && !res.succeeded.is_empty();
        }
        if mode.twin_c12 && clean && !tainted && res.new_history.is_some() {
            let h = res.new_history.as_ref().unwrap();
            let mut w4 = w.clone();
            w4.history = h.clone();
            let p4 = no_fault(plan);
            let r4 = safe_eval(&mut w4, &p4, &alt(plan, 1), &plain);
            out.evals += 1;
            for v in r4.violations.iter() {
                if v.prop == "C06" {
                    vs.push(Violation { prop: "C06", clause: format!("rerun/{}", v.clause), detail: v.detail.clone() });
                }
            }
            if r4.engine_error.is_none() {
                let act = w.active();
                let mut allowed: BTreeSet<usize> = act.iter().cloned().filter(|s| w.kind(*s) == Kind::Always).collect();
                for &s2 in act.iter().rev() {
                    if allowed.contains(&s2) {
                        for (u, _) in w.deps_of(s2) {
                            if w.kind(u) == Kind::Ephemeral {
                                allowed.insert(u);
                            }
                        }
                    }
                }
                let allowed_ids: BTreeSet<String> = allowed.iter().map(|s| w.id(*s)).collect();
                for j in r4.executed.iter() {
                    if !allowed_ids.contains(j) {
                        let k = ids.get(j).map(|s| format!("{:?}", w.kind(*s))).unwrap_or_default();
                        vs.push(Violation { prop: "C12", clause: format!("executed-on-unchanged-project/{}", k), detail: format!("{}; events {:?}", j, r4.events) });
                    }
                }
                if !r4.clean() {
                    vs.push(Violation { prop: "C12", clause: "rerun-not-clean".into(), detail: format!("failed {:?} eco {:?}", r4.failed, r4.eco) });
                }
                if let Some(h2) = &r4.new_history {
                    if let Err((what, d)) = history_equal(&w, h, h2) {
                        vs.push(Violation { prop: "C12", clause: format!("history-not-equal/{}", what), detail: d });
                    }
                }
                if w4.disk != w.disk {
                    vs.push(Violation { prop: "C12", clause: "outputs-changed".into(), detail: String::new() });
                }
            }
        }
        let mut c14_orders_differ = false;
        if mode.twin_c14 && clean && !tainted && res.new_history.is_some() {
            let p2 = no_fault(plan);
            for (ti, sch) in [alt(plan, 0), alt(plan, 1), plan.sched.clone()].iter().enumerate() {
                let mut w3 = pre.clone();
                let r3 = safe_eval(&mut w3, &p2, sch, &plain);
                out.evals += 1;
                if r3.engine_error.is_some() || !r3.clean() {
                    let what = if ti == 2 { "repeat" } else { "other-schedule" };
                    vs.push(Violation { prop: "C14", clause: format!("{}-not-clean", what), detail: format!("{:?} failed {:?} eco {:?}", r3.engine_error, r3.failed, r3.eco) });
                    continue;
                }
                if r3.start_order != res.start_order {
                    c14_orders_differ = true;
                }
                let what = if ti == 2 { "same-schedule-repeated" } else { "other-schedule" };
                if r3.disp != res.disp {
                    let diff: Vec<String> = res.disp.iter().filter(|(k, v)| r3.disp.get(*k) != Some(v)).map(|(k, v)| format!("{}: {:?} vs {:?}", k, v, r3.disp.get(k))).collect();
                    vs.push(Violation { prop: "C14", clause: format!("dispositions-differ/{}", what), detail: format!("{:?}", diff) });
                } else if let Err((why, d)) = history_equal(&w, res.new_history.as_ref().unwrap(), r3.new_history.as_ref().unwrap()) {
                    // same keys, same input lists, records equal under the configured comparison (which of two
                    // texts the comparison judges equal the engine stores is not promised by any statement)
                    vs.push(Violation { prop: "C14", clause: format!("history-differs/{}", what), detail: format!("{}: {}", why, d) });
                } else if w3.disk != w.disk {
                    vs.push(Violation { prop: "C14", clause: format!("outputs-differ/{}", what), detail: String::new() });
                } else if r3.offered_cleanup != res.offered_cleanup {
                    // part of the final disposition of an executed Ephemeral: was its product released?
                    vs.push(Violation { prop: "C14", clause: format!("cleanup-offers-differ/{}", what), detail: format!("{:?} vs {:?}", res.offered_cleanup, r3.offered_cleanup) });
                }
            }
        }
        if let Some(w2) = w15.as_mut() {
            let pre15 = w2.clone();
            let r2 = safe_eval(w2, plan, &plan.sched, &plain);
            out.evals += 1;
            let e1 = res.violations.iter().find(|v| v.prop == "C06").map(|v| v.clause.clone());
            let e2 = r2.violations.iter().find(|v| v.prop == "C06").map(|v| v.clause.clone());
            let differs = e1 != e2 || r2.eco != res.eco || (r2.engine_error.is_none() && res.engine_error.is_none() && r2.disp != res.disp);
            let mut explained = false;
            if differs && (!res.failed.is_empty() || !r2.failed.is_empty() || res.aborted) {
                // With a failure or an abort in the evaluation the engine's own hash iteration order
                // can change the outcome under one and the same choice stream (when a job is first
                // offered varies from run to run on the unchanged tree): a difference counts only if no
                // repetition of the noisy run ends like a repetition of the noise-free one.
                let key = |r: &EvalOut| (r.disp.clone(), r.eco.clone(), r.violations.iter().find(|v| v.prop == "C06").map(|v| v.clause.clone()));
                let mut noisy = vec![key(&res)];
                let mut quiet = vec![key(&r2)];
                for _ in 0..10 {
                    let mut wa = pre.clone();
                    noisy.push(key(&safe_eval(&mut wa, plan, &plan.sched, &plain)));
                    let mut wb = pre15.clone();
                    quiet.push(key(&safe_eval(&mut wb, plan, &plan.sched, &plain)));
                    out.evals += 2;
                }
                explained = noisy.iter().any(|k| quiet.contains(k));
            }
            if explained {
                out.add("c15_twin_differences_explained_by_engine_nondeterminism", 1);
            } else if e1 != e2 {
                vs.push(Violation { prop: "C15", clause: "error-depends-on-textual-noise".into(), detail: format!("with stamps {:?}, without {:?}", e1, e2) });
            } else if r2.eco != res.eco {
                vs.push(Violation { prop: "C15", clause: "changed-output-error-depends-on-textual-noise".into(), detail: format!("with stamps {:?}, without {:?}", res.eco, r2.eco) });
            } else if r2.engine_error.is_none() && res.engine_error.is_none() && r2.disp != res.disp {
                let diff: Vec<String> = res.disp.iter().filter(|(k, v)| r2.disp.get(*k) != Some(v)).map(|(k, v)| format!("{}: {:?} vs without noise {:?}", k, v, r2.disp.get(k))).collect();
                let extra = res.executed.iter().any(|j| !r2.executed.contains(j));
                vs.push(Violation { prop: "C15", clause: if extra { "job-executed-because-of-textual-noise".into() } else { "dispositions-depend-on-textual-noise".to_string() }, detail: format!("{:?}", diff) });
            }
            match (&r2.new_history, r2.engine_error.is_none() && !explained) {
                (Some(h), true) => w2.history = h.clone(),
                // (after an explained difference the two chains are no longer in lock step)
                _ => w15 = None,
            }
        }
        if mode.enum_cap > 0 && res.engine_error.is_none() && w.active().len() <= mode.enum_jobs {
            // every schedule of this evaluation (same pre-state, same failure set)
            let mut pe = plan.clone();
            pe.abort = None;
            let compare = clean && !tainted && plan.fail == 0;
            let mut idx: Vec<u8> = vec![];
            let mut count = 0usize;
            let mut complete = false;
            loop {
                let sch = Sched { choices: idx.clone(), max_running: 3, ack_mode: 1, decl: plan.sched.decl.clone(), exact: true };
                let mut we = pre.clone();
                let mut re = safe_eval(&mut we, &pe, &sch, &plain);
                let _ = posthoc(&pre, &we, &mut re);
                out.evals += 1;
                count += 1;
                for v in re.violations.iter() {
                    if v.prop == mode.prop || v.prop == "C06" || mode.prop == "ALL" {
                        vs.push(Violation { prop: v.prop, clause: v.clause.clone(), detail: format!("{} [enumerated schedule {:?}]", v.detail, idx) });
                    }
                }
                if compare && re.engine_error.is_none() {
                    if !re.clean() {
                        vs.push(Violation { prop: "C14", clause: "enumerated-schedule-not-clean".into(), detail: format!("schedule {:?}: failed {:?} eco {:?}", idx, re.failed, re.eco) });
                    } else if re.disp != res.disp {
                        let diff: Vec<String> = res.disp.iter().filter(|(k, v)| re.disp.get(*k) != Some(v)).map(|(k, v)| format!("{}: {:?} vs {:?}", k, v, re.disp.get(k))).collect();
                        vs.push(Violation { prop: "C14", clause: "dispositions-differ/enumerated-schedule".into(), detail: format!("schedule {:?}: {:?}", idx, diff) });
                    } else if let (Some(ha), Some(hb)) = (res.new_history.as_ref(), re.new_history.as_ref()) {
                        if let Err((why, d)) = history_equal(&w, ha, hb) {
                            vs.push(Violation { prop: "C14", clause: "history-differs/enumerated-schedule".into(), detail: format!("schedule {:?}: {}: {}", idx, why, d) });
                        } else if we.disk != w.disk {
                            vs.push(Violation { prop: "C14", clause: "outputs-differ/enumerated-schedule".into(), detail: format!("schedule {:?}", idx) });
                        } else if re.offered_cleanup != res.offered_cleanup {
                            vs.push(Violation { prop: "C14", clause: "cleanup-offers-differ/enumerated-schedule".into(), detail: format!("schedule {:?}: {:?} vs {:?}", idx, res.offered_cleanup, re.offered_cleanup) });
                        }
                    } else if we.disk != w.disk {
                        vs.push(Violation { prop: "C14", clause: "outputs-differ/enumerated-schedule".into(), detail: format!("schedule {:?}", idx) });
                    } else if re.offered_cleanup != res.offered_cleanup {
                        vs.push(Violation { prop: "C14", clause: "cleanup-offers-differ/enumerated-schedule".into(), detail: format!("schedule {:?}: {:?} vs {:?}", idx, res.offered_cleanup, re.offered_cleanup) });
                    }
                }
                // next schedule in depth-first order
                let b = re.branching.clone();
                idx.resize(b.len(), 0);
                let mut i = b.len();
                let mut advanced = false;
                while i > 0 {
                    i -= 1;
                    if (idx[i] as usize) + 1 < b[i] as usize {
                        idx[i] += 1;
                        idx.truncate(i + 1);
                        advanced = true;
                        break;
                    }
                }
                if !advanced {
                    complete = true;
                    break;
                }
                if count >= mode.enum_cap || !vs.is_empty() {
                    break;
                }
            }
            out.add("schedules_enumerated", count);
            if complete {
                out.count("evaluations_with_all_schedules_enumerated");
            } else {
                out.count("evaluations_with_schedule_enumeration_capped");
            }
        }
        if mode.enum_c10 && res.engine_error.is_none() {
            // every prefix of this evaluation's schedule x both abort styles
            let base = {
                if plan.abort.is_some() {
                    let mut wb = pre.clone();
                    let rb = safe_eval(&mut wb, &{ let mut p = plan.clone(); p.abort = None; p }, &plan.sched, &plain);
                    out.evals += 1;
                    rb.nactions
                } else {
                    res.nactions
                }
            };
            for k in 0..=base {
                for style in [false, true] {
                    let mut wa = pre.clone();
                    let mut pa = plan.clone();
                    pa.abort = Some((k as u32, style));
                    let ra = safe_eval(&mut wa, &pa, &plan.sched, &plain);
                    out.evals += 1;
                    out.count("abort_points");
                    if ra.aborted && (ra.abort_ready >= 1 || ra.abort_running >= 2) {
                        out.nontrivial.push(canonical(&wa, &ra, h_in, 77 + k as u64 * 2 + style as u64));
                        if out.sample.is_none() {
                            out.sample = Some(sample_of(&wa, i, &ra, &step.edits));
                        }
                    }
                    for v in ra.violations.iter() {
                        if v.prop == "C10" {
                            vs.push(Violation { prop: "C10", clause: v.clause.clone(), detail: format!("abort before action {} (report running failed: {}): {}", k, style, v.detail) });
                        }
                    }
                }
            }
        }

        // ------------------------------------------------ classification
        let model = ph.model.as_ref();
        let n_exec = res.executed.len();
        let skipped: Vec<&String> = res.disp.iter().filter(|(_, d)| **d == Disp::Skipped).map(|(j, _)| j).collect();
        let skipped_outputs = skipped.iter().filter(|j| ids.get(**j).map(|s| w.kind(*s) == Kind::Output).unwrap_or(false)).count();
        let edge_mix = {
            let mut a = false;
            let mut b = false;
            for s in w.active() {
                let id = w.id(s);
                for (u, _) in w.deps_of(s) {
                    let uid = w.id(u);
                    let (de, ds) = (res.disp.get(&id), res.disp.get(&uid));
                    if de == Some(&Disp::Skipped) && ds == Some(&Disp::ExecOk) {
                        a = true;
                    }
                    if de == Some(&Disp::ExecOk) && ds == Some(&Disp::Skipped) {
                        b = true;
                    }
                }
            }
            (a, b)
        };
        if clean { out.count("clean_evaluations"); }
        if !res.failed.is_empty() { out.count("evaluations_with_failure"); }
        if res.aborted { out.count("aborted_evaluations"); }
        if skipped_outputs > 0 { out.count("evaluations_with_skipped_output"); }
        if res.on_demand > 0 { out.count("evaluations_with_on_demand_ephemeral"); }
        if res.max_concurrency >= 2 { out.count("evaluations_with_concurrency"); }
        if !res.eco.is_empty() { out.count("evaluations_with_changed_output_error"); }
        if model.map(|m| m.shielded > 0).unwrap_or(false) { out.count("evaluations_with_shielding"); }
        if h_in.keys().any(|k| !k.contains("!!!") && !ids.contains_key(k)) { out.count("evaluations_with_absent_job_history"); }
        if res.noise_hits > 0 { out.count("evaluations_with_textual_noise_judged_unaltered"); }
        if res.engine_error.is_some() { out.count("evaluations_ending_in_engine_error"); }
        out.add("hook_log_gaps_resynchronised", res.hook_log_gaps);
        out.add("evaluations_through_the_crates_StrategyForTesting", res.real_strategy as usize);
        out.add("pending_signal_sightings", res.pending_signal_sightings);
        out.add("probes", res.probes_done);
        out.add("comparisons", res.comparisons);
        let nontrivial = match mode.prop {
            "C01" => clean && !tainted && skipped_outputs >= 1 && n_exec >= 1 && i > 0,
            "C02" => res.on_demand > 0,
            "C03" => !skipped.is_empty() && (edge_mix.0 || prev_unclean || (i > 0 && !step.edits.is_empty())),
            "C04" => !tainted && ((n_exec >= 1 && skipped.iter().any(|j| !model.map(|m| m.useless.contains(*j)).unwrap_or(false))) || model.map(|m| m.shielded > 0).unwrap_or(false)),
            "C05" => res.max_concurrency >= 2 || !res.failed.is_empty() || plan.sched.ack_mode != 0,
            "C06" => res.failed.iter().any(|j| h_in.contains_key(j)) || prev_unclean,
            "C07" => !res.failed.is_empty() && w.active().len() > failed_ancestors(&w, &res.failed).len() + res.failed.len(),
            "C08" => res.failed.iter().any(|j| h_in.contains_key(j) && h_in.keys().any(|k| k.ends_with(&format!("!!!{}", j)) && !k.starts_with(j.as_str()))),
            "C09" => c09_nontrivial,
            "C10" => false, // counted per abort point above
            "C11" => edge_mix.0 || edge_mix.1,
            "C12" => clean && !tainted && w.active().iter().any(|s| w.kind(*s) == Kind::Output && !w.deps_of(*s).is_empty()),
            "C13" => res.succeeded.iter().any(|j| {
                let s = ids[j];
                w.kind(s) == Kind::Ephemeral && w.consumers_of(s).len() >= 2 && w.consumers_of(s).iter().any(|d| res.disp.get(&w.id(*d)) == Some(&Disp::Skipped))
            }),
            "C14" => clean && !tainted && c14_orders_differ,
            "C15" => res.noise_hits > 0,
            "C16" => res.on_demand > 0,
            "C17" => res.max_concurrency >= 2 || !res.failed.is_empty(),
            "C18" => h_in.keys().any(|k| {
                match k.split_once("!!!") {
                    None => !ids.contains_key(k),
                    Some((a, b)) => {
                        if b.is_empty() { !ids.contains_key(a) } else { !ids.contains_key(a) || !ids.contains_key(b) || !w.has_dep(ids[b], ids[a]) }
                    }
                }
            }),
            "C20" => res.probes_done > 0 && n_exec >= 1,
            _ => n_exec >= 1,
        };
        if nontrivial {
            let extra = match mode.prop {
                "C05" | "C17" | "C14" => res.max_concurrency as u64 * 7 + plan.sched.ack_mode as u64,
                "C20" => res.probes_done as u64,
                _ => 0,
            };
            out.nontrivial.push(canonical(&w, &res, h_in, extra));
            if out.sample.is_none() {
                out.sample = Some(sample_of(&w, i, &res, &step.edits));
            }
        }
        if mode.prop == "C15" && sc.cfg.stamps {
            // C15's third clause: under records that differ textually but are judged unaltered the outcome
            // must not depend on scheduling or declaration order - the C14 twins of the noisy chain
            let more: Vec<Violation> = vs.iter().filter(|v| v.prop == "C14").map(|v| Violation { prop: "C15", clause: format!("outcome-depends-on-scheduling-under-noise/{}", v.clause), detail: v.detail.clone() }).collect();
            vs.extend(more);
        }
        for v in vs {
            out.violations.push((i, v));
        }
        prev_unclean = !clean;
        match (&res.new_history, res.engine_error.is_none()) {
            (Some(h), true) => w.history = h.clone(),
            _ => break,
        }
    }
    out
}

/// human readable trace of a scenario (development / triage aid)
pub fn trace_case(sc: &Scenario) -> String {
    let mut s = String::new();
    let opts = Opts { monitors: true, probes: false, batch: 0 };
    let mut w = World::new(sc);
    s.push_str(&format!("config {:?}\n", sc.cfg));
    for (i, step) in sc.steps.iter().enumerate() {
        for e in step.edits.iter() {
            w.apply_edit(e);
        }
        s.push_str(&format!("== evaluation {} after edits {:?}\n", i, step.edits));
        for l in describe_graph(&w) {
            s.push_str(&format!("   {}\n", l));
        }
        let p = &step.plan;
        s.push_str(&format!("   plan: fail={:b} fail_mode={} abort={:?} max_running={} ack_mode={} choices={:?} decl={}\n", p.fail, p.fail_mode, p.abort, p.sched.max_running, p.sched.ack_mode, p.sched.choices, !p.sched.decl.is_empty()));
        s.push_str(&format!("   history in: {:?}\n", w.history));
        s.push_str(&format!("   disk: {:?}\n", w.disk));
        let pre = w.clone();
        let mut res = safe_eval(&mut w, p, &p.sched, &opts);
        let _ = posthoc(&pre, &w, &mut res);
        s.push_str(&format!("   events: {:?}\n", res.events));
        s.push_str(&format!("   dispositions: {:?}\n", res.disp));
        s.push_str(&format!("   states: {:?}\n", res.final_states));
        for t in res.transitions.iter() {
            s.push_str(&format!("      {} {} -> {}\n", t.0, t.1, t.2));
        }
        for v in res.violations.iter() {
            s.push_str(&format!("   !! {} :: {}\n", v.sig(), v.detail));
        }
        match (&res.new_history, res.engine_error.is_none()) {
            (Some(h), true) => w.history = h.clone(),
            _ => break,
        }
    }
    s
}
