//! Decoder: byte string -> Scenario.  The only source of generated data: proptest
//! generates the byte string (and shrinks it), libFuzzer mutates it.  Construction,
//! never rejection: every byte string decodes to a valid scenario; an exhausted
//! stream yields zeros, which decode to the simplest choice everywhere.
use crate::scenario::*;

pub struct Src<'a> {
    data: &'a [u8],
    pos: usize,
}

impl<'a> Src<'a> {
    pub fn new(data: &'a [u8]) -> Self {
        Src { data, pos: 0 }
    }
    pub fn u8(&mut self) -> u8 {
        let v = self.data.get(self.pos).cloned().unwrap_or(0);
        self.pos += 1;
        v
    }
    /// monotone map onto 0..n (n <= 256)
    pub fn below(&mut self, n: usize) -> usize {
        if n <= 1 {
            self.u8();
            return 0;
        }
        (self.u8() as usize * n) >> 8
    }
    /// true with probability ~ num/256; zero byte => false
    pub fn chance(&mut self, num: u16) -> bool {
        (255 - self.u8() as u16) < num
    }
    pub fn bytes(&mut self, n: usize) -> Vec<u8> {
        (0..n).map(|_| self.u8()).collect()
    }
    pub fn exhausted(&self) -> bool {
        self.pos >= self.data.len()
    }
}

// swarm features
pub const F_MULTI: u16 = 1 << 0;
pub const F_TOGGLE_JOB: u16 = 1 << 1;
pub const F_TOGGLE_DEP: u16 = 1 << 2;
pub const F_DELETE: u16 = 1 << 3;
pub const F_FAIL: u16 = 1 << 4;
pub const F_ABORT: u16 = 1 << 5;
pub const F_COARSE: u16 = 1 << 6;
pub const F_IGNORE: u16 = 1 << 7;
pub const F_STAMPS: u16 = 1 << 8;
pub const F_CONSUMED: u16 = 1 << 9;
pub const F_OUTNAMES: u16 = 1 << 10;
pub const F_CONC: u16 = 1 << 11;
pub const F_LATEACK: u16 = 1 << 12;
pub const F_DECL: u16 = 1 << 13;
pub const F_BUMP: u16 = 1 << 14;
pub const F_FLAKY: u16 = 1 << 15;

#[derive(Clone, Debug)]
pub struct Profile {
    pub max_slots: usize,
    pub max_steps: usize,
    pub force_on: u16,
    pub force_off: u16,
    /// relative weights Always / Output / Ephemeral
    pub kinds: [u8; 3],
    /// dependency probability numerator (of 256) for small graphs
    pub p_dep: u16,
    /// probability (of 256) that an evaluation has a failure set / an abort
    pub p_fail: u16,
    pub p_abort: u16,
    /// probability (of 256) that one of the structural motifs is planted into the scenario
    pub p_motif: u16,
}

impl Profile {
    pub fn default_quick() -> Profile {
        Profile {
            max_slots: 8,
            max_steps: 5,
            force_on: 0,
            force_off: F_FLAKY,
            kinds: [1, 1, 1],
            p_dep: 100,
            p_fail: 85,
            p_abort: 50,
            p_motif: 56,
        }
    }
    pub fn bytes_needed(&self) -> usize {
        let n = self.max_slots;
        43 + n * (6 + 2 * n) + self.max_steps * (17 + 3 * (5 * n + 12))
    }
}

fn decode_sched(src: &mut Src, n: usize, feat: u16) -> Sched {
    let max_running = if feat & F_CONC != 0 { 1 + src.below(4) as u8 } else { src.u8(); 1 };
    let ack_mode = if feat & F_LATEACK != 0 { src.below(3) as u8 } else { src.u8(); 0 };
    // declaration order: sorted (upstream first) or permuted; several defects need downstreams
    // or a particular sibling to be declared first
    let decl_on = if feat & F_DECL != 0 { src.chance(200) } else { src.chance(64) };
    let decl = src.bytes(2 * n + 6);
    let choices = src.bytes(3 * n + 4);
    Sched {
        choices,
        max_running,
        ack_mode,
        decl: if decl_on { decl } else { vec![] },
        exact: false,
    }
}

pub fn decode(data: &[u8], prof: &Profile) -> Scenario {
    let mut src = Src::new(data);
    let raw_feat = (src.u8() as u16) | ((src.u8() as u16) << 8);
    let feat = (raw_feat | prof.force_on) & !prof.force_off;
    // motif selection at a fixed position of the stream (stable under libFuzzer mutations)
    let mb = src.u8();
    let mv = src.u8();
    let anon = src.chance(56) && feat & F_CONSUMED == 0;
    let n = 2 + src.below(prof.max_slots.saturating_sub(1).max(1));
    let cfg = Config {
        scope: if feat & F_CONSUMED != 0 { Scope::Consumed } else { Scope::Whole },
        stamps: feat & F_STAMPS != 0,
        names: if feat & F_OUTNAMES != 0 { Names::Outputs } else { Names::JobIds },
        anon,
    };
    let ksum = prof.kinds.iter().map(|x| *x as usize).sum::<usize>().max(1);
    let mut slots = vec![];
    let mut init = vec![];
    for i in 0..n {
        let kb = src.below(ksum);
        let mut kind = if kb < prof.kinds[0] as usize {
            Kind::Always
        } else if kb < (prof.kinds[0] + prof.kinds[1]) as usize {
            Kind::Output
        } else {
            Kind::Ephemeral
        };
        let b = src.u8();
        if i == 0 && b >= 128 {
            kind = Kind::Always;
        }
        if i == n - 1 && b >= 192 && kind == Kind::Ephemeral {
            kind = Kind::Output;
        }
        let coarse = src.chance(64) && feat & F_COARSE != 0;
        let flaky = src.chance(100) && feat & F_FLAKY != 0 && kind == Kind::Ephemeral;
        let pb = src.u8();
        let parts = if feat & F_MULTI != 0 && kind != Kind::Always && pb >= 160 {
            match (pb - 160) / 24 {
                0 => 0b011,
                1 => 0b101,
                2 => 0b111,
                _ => 0b010,
            }
        } else {
            1
        };
        // now and then a job also claims the output name it shares with its pair partner
        let parts = if feat & F_MULTI != 0 && kind != Kind::Always && pb % 5 == 0 { parts | 8 } else { parts };
        let active = !src.chance(40);
        let p_dep = if i > 3 { (prof.p_dep * 3 / (i as u16)).max(24) } else { prof.p_dep };
        let mut ign = vec![];
        let mut deps = vec![];
        for u in 0..i {
            let ib = src.u8();
            ign.push(if feat & F_IGNORE != 0 && ib >= 200 { 1 << ((ib - 200) / 19).min(2) } else { 0 });
            let db = src.u8();
            if (255 - db as u16) < p_dep {
                let m = 1u8 << (db % 3);
                let m = if db % 7 == 0 { m | 1 } else { m };
                let m = if db % 5 == 0 { m | 8 } else { m };
                deps.push((u, m));
            }
        }
        slots.push(SlotDef { kind, coarse, ign, flaky });
        init.push(SlotInit { active, parts, deps });
    }
    let nsteps = 1 + src.below(prof.max_steps);
    let mut steps: Vec<Step> = vec![];
    for si in 0..nsteps {
        let nedits = if si == 0 { 0 } else { src.below(4) };
        let mut edits = vec![];
        for _ in 0..3 {
            let t = src.u8();
            let a = src.u8();
            let b = src.u8();
            if edits.len() >= nedits {
                continue;
            }
            let s = (a as usize * n) >> 8;
            let e = match t % 8 {
                0 if feat & F_TOGGLE_JOB != 0 => Some(Edit::ToggleJob(s)),
                1 | 2 if feat & F_TOGGLE_DEP != 0 => {
                    if s > 0 {
                        let up = (b as usize * s) >> 8;
                        Some(Edit::ToggleDep { down: s, up, mask: (1 << (b % 3)) | if b % 5 == 0 { 8 } else { 0 } })
                    } else {
                        None
                    }
                }
                3 | 4 if feat & F_BUMP != 0 => {
                    let always: Vec<usize> = (0..n).filter(|i| slots[*i].kind == Kind::Always).collect();
                    if always.is_empty() {
                        None
                    } else {
                        Some(Edit::Bump(always[(a as usize * always.len()) >> 8]))
                    }
                }
                5 if feat & F_DELETE != 0 => Some(Edit::Delete(s, (1 + (b % 7)) | if b >= 200 { 8 } else { 0 })),
                6 if feat & F_MULTI != 0 => Some(if (160..176).contains(&b) { Edit::ToggleOrder(s) } else { Edit::TogglePart(s, if b >= 176 { 3 } else { b % 3 }) }),
                7 if feat & F_BUMP != 0 => {
                    let always: Vec<usize> = (0..n).filter(|i| slots[*i].kind == Kind::Always).collect();
                    if always.is_empty() {
                        None
                    } else {
                        Some(Edit::Bump(always[(b as usize * always.len()) >> 8]))
                    }
                }
                _ => None,
            };
            if let Some(e) = e {
                edits.push(e);
            }
        }
        // "removed and later re-added": now and then a step takes back the structural edits of
        // the step before it (toggles are their own inverse)
        let undo = src.chance(48);
        if undo && si >= 2 {
            let prev: Vec<Edit> = steps[si - 1usize]
                .edits
                .iter()
                .filter(|e: &&Edit| matches!(e, Edit::ToggleJob(_) | Edit::ToggleDep { .. } | Edit::TogglePart(..) | Edit::ToggleOrder(_)))
                .cloned()
                .collect();
            if !prev.is_empty() {
                edits.retain(|e| !matches!(e, Edit::ToggleJob(_) | Edit::ToggleDep { .. } | Edit::TogglePart(..) | Edit::ToggleOrder(_)));
                edits.extend(prev);
            }
        }
        let mut fail = 0u32;
        let do_fail = src.chance(prof.p_fail) && feat & F_FAIL != 0;
        let fb = src.bytes(n);
        if do_fail {
            for (i, b) in fb.iter().enumerate() {
                if *b >= 192 {
                    fail |= 1 << i;
                }
            }
        }
        let fail_mode = src.below(3) as u8;
        let do_abort = src.chance(prof.p_abort) && feat & F_ABORT != 0;
        let ab = src.below(2 * n + 2) as u32;
        let style = src.u8() >= 128;
        let sched = decode_sched(&mut src, n, feat);
        let alts = vec![decode_sched(&mut src, n, feat | F_CONC | F_LATEACK | F_DECL), decode_sched(&mut src, n, feat | F_CONC | F_DECL)];
        steps.push(Step {
            edits,
            plan: Plan {
                fail,
                fail_mode,
                abort: if do_abort { Some((ab, style)) } else { None },
                sched,
                alts,
            },
        });
    }
    let mut sc = Scenario { cfg, slots, init, steps, motif: 0 };
    if (255 - mb as u16) < prof.p_motif {
        plant_motif(&mut sc, feat, mv);
    }
    sc
}

fn set_slot(sc: &mut Scenario, i: usize, kind: Kind, deps: &[usize]) {
    sc.slots[i].kind = kind;
    sc.slots[i].coarse = false;
    sc.slots[i].flaky = false;
    for x in sc.slots[i].ign.iter_mut() {
        *x = 0;
    }
    sc.init[i].active = true;
    sc.init[i].parts = 1;
    sc.init[i].deps = deps.iter().map(|u| (*u, 1u8)).collect();
}

/// Structures that matter for several properties but are rare under uniform generation
/// (measured: about 1 in 100k scenarios) are planted into the first slots of the scenario (which is
/// grown to the size the motif needs); the remaining slots, their dependencies into the motif,
/// schedules and later steps stay random.
///  0: an up-to-date Ephemeral P that is only needed late (its consumer W is invalidated by an
///     Always job Q finishing with a changed output) while its other consumer U was already
///     skipped and U's dependants X, Z are skipped / delayed / on offer; P then fails, changes its
///     output (flaky), or succeeds. Extended form: a second Ephemeral E feeding Z and D2, so that E
///     is executed, finished and possibly offered for cleanup when the failure reaches Z
///  1: a chain of three to five up-to-date Ephemerals above an Output; an Always input that changes
///     enters at the Output, or at the last or last-but-one Ephemeral (invalidated late)
///  2: an Ephemeral with two consumers, one of which has a second input that fails or changes
///     while the Ephemeral runs (concurrency)
///  3: a fan-in (several upstreams of one job decided within one round of signals)
///  4: a dependency removed while its consumer is not recorded anew, and put back later
///  5: chains of different lengths and mixed kinds converging on one job (`plant_convergent_chains`)
fn ensure_slots(sc: &mut Scenario, need: usize) {
    while sc.slots.len() < need {
        let i = sc.slots.len();
        sc.slots.push(SlotDef { kind: Kind::Output, coarse: false, ign: vec![0; i], flaky: false });
        sc.init.push(SlotInit { active: true, parts: 1, deps: vec![] });
    }
}

fn plant_motif(sc: &mut Scenario, feat: u16, mv: u8) {
    let which = mv % 6;
    // the variant bits: a hash of the rest of the motif byte and of a generated byte of the scenario, so
    // that every combination of the bits below is reachable (fixed bit positions of `mv / 6` were not:
    // it has 43 values)
    let e0 = sc.steps.first().and_then(|s| s.plan.sched.choices.first()).cloned().unwrap_or(0);
    let var = ((((mv / 6) as u32) * 97 + (e0 as u32) * 31 + 1).wrapping_mul(2654435761) >> 24) as u8;
    if which == 5 {
        plant_convergent_chains(sc, mv, var);
        return;
    }
    let extended = which == 0 && var & 8 != 0;
    let fan = 3 + (var & 1) as usize;
    let chain_len = 3 + [0usize, 1, 2, 0][((var >> 1) & 3) as usize];
    let need = match which {
        0 => if extended { 8 } else { 6 },
        1 => chain_len + 3,
        2 => 4,
        4 => 5,
        _ => 2 + fan * if var & 2 == 0 { 3 } else { 1 },
    };
    ensure_slots(sc, need);
    // a grown scenario needs longer choice streams (derived from the generated ones)
    let want = 3 * sc.slots.len() + 4;
    for st in sc.steps.iter_mut() {
        for sch in std::iter::once(&mut st.plan.sched).chain(st.plan.alts.iter_mut()) {
            let old = sch.choices.len().max(1);
            let mut i = 0usize;
            while sch.choices.len() < want {
                let b = sch.choices.get(i % old).cloned().unwrap_or(0);
                sch.choices.push(b.wrapping_mul(37).wrapping_add((i as u8).wrapping_mul(101)) ^ mv);
                i += 1;
            }
        }
    }
    while sc.steps.len() < 2 {
        let st = sc.steps[0].clone();
        sc.steps.push(st);
    }
    sc.motif = which + 1;
    // first evaluation: a clean build of the motif
    sc.steps[0].plan.fail = 0;
    sc.steps[0].plan.abort = None;
    match which {
        0 => {
            set_slot(sc, 0, Kind::Always, &[]);
            set_slot(sc, 1, Kind::Ephemeral, &[]);
            set_slot(sc, 2, Kind::Output, &[1]);
            set_slot(sc, 3, Kind::Output, &[0, 1]);
            set_slot(sc, 4, if var & 1 == 0 { Kind::Ephemeral } else { Kind::Output }, &[2]);
            let mut edits = vec![Edit::Bump(0)];
            let mut clear = 0b111101u32;
            if extended {
                set_slot(sc, 5, Kind::Ephemeral, &[]);
                set_slot(sc, 6, Kind::Output, &[4, 5]);
                set_slot(sc, 7, Kind::Output, &[5]);
                if var & 16 == 0 {
                    edits.push(Edit::Delete(7, 1));
                }
                clear |= 0b11000000;
            } else {
                set_slot(sc, 5, Kind::Output, &[4]);
            }
            let plan_fail = var & 2 == 0;
            if !plan_fail && var & 4 == 0 && feat & F_FLAKY != 0 {
                sc.slots[1].flaky = true;
            }
            let st = &mut sc.steps[1];
            st.edits = edits;
            st.plan.abort = None;
            st.plan.fail &= !clear;
            if plan_fail {
                st.plan.fail |= 0b10;
            } else if sc.slots[1].flaky {
                st.plan.fail &= !0b10;
            }
            if st.plan.sched.max_running < 2 {
                st.plan.sched.max_running = 2 + (var >> 5) % 3;
            }
        }
        1 => {
            // a chain of 3-5 up-to-date Ephemerals above an Output; the changing Always input
            // enters at the Output (the chain becomes required late) or at the last / middle
            // Ephemeral (which is invalidated late, after the ones above it were considered)
            let len = chain_len;
            set_slot(sc, 0, Kind::Always, &[]);
            set_slot(sc, 1, Kind::Ephemeral, &[]);
            for k in 2..=len {
                set_slot(sc, k, Kind::Ephemeral, &[k - 1]);
            }
            set_slot(sc, len + 1, Kind::Output, &[len]);
            let entry = match (var >> 3) & 3 {
                0 | 1 => len + 1,
                2 => len,
                _ => len - 1,
            };
            let mut d: Vec<usize> = vec![0];
            d.extend(sc.init[entry].deps.iter().map(|x| x.0));
            set_slot(sc, entry, sc.slots[entry].kind, &d);
            let interrupted = var & 32 != 0;
            if var & 1 == 0 || interrupted {
                // a side consumer of the chain's head; in the interrupted form it also sees the
                // changing input, so that after the cut-off run it is ahead of the chain's tail
                if interrupted {
                    set_slot(sc, len + 2, Kind::Output, &[0, 1]);
                } else {
                    set_slot(sc, len + 2, Kind::Output, &[1]);
                }
            }
            if interrupted {
                // the evaluation after the change is cut off (generated abort point or failure set),
                // the next one resumes with nothing else changed
                while sc.steps.len() < 3 {
                    let st = sc.steps[1].clone();
                    sc.steps.push(st);
                }
                let k = sc.steps[1].plan.sched.choices.first().cloned().unwrap_or(0) as u32 % (2 * (len as u32) + 4);
                let st = &mut sc.steps[1];
                st.edits = vec![Edit::Bump(0)];
                if st.plan.fail == 0 || var & 1 == 0 {
                    st.plan.fail = 0;
                    st.plan.abort = Some((k, var & 2 != 0));
                } else {
                    st.plan.abort = None;
                }
                let st2 = &mut sc.steps[2];
                st2.edits = vec![];
                st2.plan.abort = None;
                st2.plan.fail = 0;
            } else {
                let st = &mut sc.steps[1];
                st.edits = vec![Edit::Bump(0)];
                st.plan.abort = None;
                st.plan.fail &= !((1u32 << (len + 2)) - 1);
            }
        }
        4 => {
            // a dependency is removed in an evaluation in which its consumer is *not* recorded anew
            // (another upstream fails, or the run is aborted), the upstream changes meanwhile, and the
            // dependency is put back later: the consumer has no account of that input any more and
            // must run - whatever other records of it happen to look like
            set_slot(sc, 0, Kind::Always, &[]);
            set_slot(sc, 1, if var & 1 == 0 { Kind::Output } else { Kind::Ephemeral }, &[0]);
            set_slot(sc, 2, Kind::Output, &[]);
            set_slot(sc, 3, Kind::Output, &[1, 2]);
            set_slot(sc, 4, Kind::Output, &[3]);
            if var & 2 == 0 {
                // records that do not name their outputs and coarse contents: records of different jobs
                // are frequently equal
                if sc.cfg.scope == Scope::Whole {
                    sc.cfg.anon = true;
                }
                sc.slots[1].coarse = true;
                sc.slots[2].coarse = true;
            }
            while sc.steps.len() < 3 {
                let st = sc.steps[sc.steps.len() - 1].clone();
                sc.steps.push(st);
            }
            let k = sc.steps[1].plan.sched.choices.first().cloned().unwrap_or(0) as u32 % 4;
            let st = &mut sc.steps[1];
            st.edits = vec![Edit::ToggleDep { down: 3, up: 1, mask: 1 }, Edit::Bump(0), Edit::Delete(2, 1)];
            if var & 4 == 0 {
                st.plan.fail = 0b100;
                st.plan.abort = None;
            } else {
                st.plan.fail = 0;
                st.plan.abort = Some((k, var & 8 != 0));
            }
            let st2 = &mut sc.steps[2];
            st2.edits = vec![Edit::ToggleDep { down: 3, up: 1, mask: 1 }];
            if var & 16 != 0 {
                st2.edits.push(Edit::Bump(0));
            }
            st2.plan.abort = None;
            st2.plan.fail = 0;
        }
        3 => {
            // fan-in: `fan` Output jobs below a common Always root and above a common sink, so that
            // several upstreams of one job finish (or are skipped) within one round of signals;
            // optionally each has its own Ephemeral input shared with a side consumer whose output
            // is deleted before the second evaluation (the Ephemerals run, the fan is skipped)
            let with_eph = var & 2 == 0;
            set_slot(sc, 0, Kind::Always, &[]);
            let (eph0, mid0) = if with_eph { (1, 1 + fan) } else { (0, 1) };
            for k in 0..fan {
                if with_eph {
                    set_slot(sc, eph0 + k, Kind::Ephemeral, &[]);
                    set_slot(sc, mid0 + k, Kind::Output, &[0, eph0 + k]);
                } else {
                    set_slot(sc, mid0 + k, Kind::Output, &[0]);
                }
            }
            let sink = mid0 + fan;
            let mids: Vec<usize> = (mid0..mid0 + fan).collect();
            set_slot(sc, sink, if var & 4 == 0 { Kind::Always } else { Kind::Output }, &mids);
            let mut edits = vec![];
            if with_eph {
                for k in 0..fan {
                    set_slot(sc, sink + 1 + k, Kind::Output, &[eph0 + k]);
                    edits.push(Edit::Delete(sink + 1 + k, 1));
                }
            }
            if var & 8 != 0 {
                edits.push(Edit::Bump(0));
            }
            let st = &mut sc.steps[1];
            st.edits = edits;
            st.plan.abort = None;
            st.plan.fail = 0;
            st.plan.sched.max_running = st.plan.sched.max_running.max(2 + (var >> 4) % 3);
        }
        _ => {
            set_slot(sc, 0, if var & 1 == 0 { Kind::Always } else { Kind::Output }, &[]);
            set_slot(sc, 1, Kind::Ephemeral, &[]);
            set_slot(sc, 2, Kind::Output, &[0, 1]);
            set_slot(sc, 3, Kind::Output, &[1]);
            let k = if var & 2 == 0 { 0 } else { 1 };
            let st = &mut sc.steps[k];
            st.plan.abort = None;
            st.plan.fail &= !0b1111;
            if var & 4 == 0 {
                st.plan.fail |= 0b1;
            }
            st.plan.sched.max_running = st.plan.sched.max_running.max(2);
            if k == 1 {
                st.edits = if var & 1 == 0 { vec![Edit::Bump(0), Edit::Delete(3, 1)] } else { vec![Edit::Delete(0, 1), Edit::Delete(3, 1)] };
            }
        }
    }
}

/// Motif 5: two or three chains of different lengths and mixed kinds that converge on one job, optionally
/// below a common root and next to an unrelated chain. Everything is built once; then the sink leaves the
/// graph while its inputs are rebuilt and comes back, or an output in the middle is deleted, or only the
/// generated edits apply. What is exercised is the engine's round arithmetic: in the later evaluations whole
/// cascades of skips are resolved inside one call, the upstreams of the sink are decided a different number
/// of signal rounds apart, and which `ConsiderJob` is still queued when depends on lengths, kinds and
/// declaration order.
fn plant_convergent_chains(sc: &mut Scenario, mv: u8, var: u8) {
    // generated bytes of the scenario are the entropy of the layout
    let mut ent: Vec<u8> = sc.steps.iter().flat_map(|s| s.plan.sched.choices.iter().chain(s.plan.sched.decl.iter()).cloned().collect::<Vec<u8>>()).take(48).collect();
    let mut x = (mv as u32).wrapping_mul(2654435761u32).wrapping_add(var as u32);
    while ent.len() < 48 {
        x = x.wrapping_mul(1664525).wrapping_add(1013904223);
        ent.push((x >> 24) as u8);
    }
    let mut ei = 0usize;
    let mut next = |m: usize| -> usize {
        let b = ent[ei % ent.len()] as usize;
        ei += 1;
        b * m >> 8
    };
    // two forms: plain (every chain starts at a root and ends in the sink) and tree-like (chains may branch
    // off earlier ones, some are side branches that never reach the sink, feeders tend to feed the sink)
    let tree_form = var & 128 != 0;
    let nchains = 2 + (var & 1) as usize;
    let common_root = var & 2 != 0;
    let side_chain = var & 4 != 0;
    let max_len = if nchains == 3 { 3 } else { 4 };
    let mut layout: Vec<(Kind, Vec<usize>)> = vec![];
    let mut always_roots: Vec<usize> = vec![];
    if common_root {
        let k = if var & 8 != 0 { Kind::Always } else { Kind::Output };
        if k == Kind::Always {
            always_roots.push(0);
        }
        layout.push((k, vec![]));
    }
    // up to two root Ephemerals that feed two jobs each somewhere in the chains (delayed while their
    // consumers are undecided; decided when a cascade of skips or of upstream failures reaches those)
    let nfeeders = next(3);
    let mut feeders: Vec<usize> = vec![];
    for _ in 0..nfeeders {
        feeders.push(layout.len());
        layout.push((Kind::Ephemeral, vec![]));
    }
    let mut lasts: Vec<usize> = vec![];
    let mut mids: Vec<usize> = vec![];
    let mut chain_roots: Vec<usize> = vec![];
    let first_chain_job = layout.len();
    for _ in 0..nchains {
        let len = 1 + next(max_len);
        let mut prev: Option<usize> = None;
        for k in 0..len {
            let kind = match next(5) {
                0 | 1 => Kind::Output,
                2 | 3 => Kind::Ephemeral,
                _ => if k == 0 && !common_root { Kind::Always } else { Kind::Output },
            };
            let deps = match prev {
                Some(p) => vec![p],
                None => {
                    // a later chain may branch off a job of an earlier one instead of starting at the root
                    let earlier = layout.len() - first_chain_job;
                    if tree_form && earlier > 0 && next(3) == 0 && kind != Kind::Always {
                        vec![first_chain_job + next(earlier)]
                    } else if common_root {
                        vec![0]
                    } else {
                        vec![]
                    }
                }
            };
            let idx = layout.len();
            if kind == Kind::Always {
                always_roots.push(idx);
            }
            if k == 0 {
                chain_roots.push(idx);
            }
            layout.push((kind, deps));
            if k + 1 < len {
                mids.push(idx);
            }
            prev = Some(idx);
        }
        lasts.push(prev.unwrap());
    }
    let sink_kind = match next(4) {
        0 | 1 => Kind::Output,
        2 => Kind::Ephemeral,
        _ => Kind::Always,
    };
    let sink = layout.len();
    // not every chain has to reach the sink: the others are side branches of the cascade
    let mut sink_deps: Vec<usize> = lasts.iter().cloned().filter(|_| !tree_form || next(3) != 0).collect();
    if sink_deps.is_empty() {
        sink_deps.push(lasts[lasts.len() - 1]);
    }
    layout.push((sink_kind, sink_deps));
    for f in feeders.iter() {
        let span = sink + 1 - first_chain_job;
        let a = first_chain_job + next(span);
        let b = if tree_form && next(2) == 0 { sink } else { first_chain_job + next(span) };
        for c in [a, b] {
            if layout[c].0 != Kind::Always || c == sink {
                if !layout[c].1.contains(f) {
                    layout[c].1.push(*f);
                }
            }
        }
    }
    let fail_root = next(3) == 0;
    if sink_kind == Kind::Ephemeral || next(3) == 0 {
        layout.push((Kind::Output, vec![sink]));
    }
    if side_chain {
        let len = 1 + next(3);
        let mut prev: Option<usize> = None;
        for k in 0..len {
            let kind = if k + 1 == len || next(2) == 0 { Kind::Output } else { Kind::Ephemeral };
            let idx = layout.len();
            layout.push((kind, prev.map(|p| vec![p]).unwrap_or_default()));
            prev = Some(idx);
        }
    }
    let old_n = sc.slots.len();
    ensure_slots(sc, layout.len());
    let n = sc.slots.len();
    let want = 3 * n + 4;
    for st in sc.steps.iter_mut() {
        for sch in std::iter::once(&mut st.plan.sched).chain(st.plan.alts.iter_mut()) {
            let old = sch.choices.len().max(1);
            let mut i = 0usize;
            while sch.choices.len() < want {
                let b = sch.choices.get(i % old).cloned().unwrap_or(0);
                sch.choices.push(b.wrapping_mul(37).wrapping_add((i as u8).wrapping_mul(101)) ^ mv);
                i += 1;
            }
        }
    }
    while sc.steps.len() < 3 {
        let st = sc.steps[sc.steps.len() - 1].clone();
        sc.steps.push(st);
    }
    sc.motif = 6;
    for (i, (k, d)) in layout.iter().enumerate() {
        set_slot(sc, i, *k, d);
    }
    sc.steps[0].plan.fail = 0;
    sc.steps[0].plan.abort = None;
    // the generated edits spoke about the slots of the smaller graph: spread them over the grown one
    let scale = |s: usize| -> usize { if old_n == 0 { s } else { (s * n / old_n).min(n - 1) } };
    for st in sc.steps.iter_mut().skip(1) {
        for e in st.edits.iter_mut() {
            *e = match e.clone() {
                Edit::ToggleJob(a) => Edit::ToggleJob(scale(a)),
                Edit::ToggleDep { down, up, mask } => {
                    let (d, u) = (scale(down), scale(up));
                    if u < d { Edit::ToggleDep { down: d, up: u, mask } } else { Edit::ToggleDep { down, up, mask } }
                }
                Edit::TogglePart(a, p) => Edit::TogglePart(scale(a), p),
                Edit::Delete(a, m) => Edit::Delete(scale(a), m),
                Edit::ToggleOrder(a) => Edit::ToggleOrder(scale(a)),
                Edit::Bump(a) => Edit::Bump(a),
            };
        }
    }
    let bumps: Vec<Edit> = always_roots.iter().map(|r| Edit::Bump(*r)).collect();
    match (var >> 4) % 3 {
        1 => {
            // the sink is out of the graph while its inputs are rebuilt, then comes back
            let st = &mut sc.steps[1];
            st.edits = vec![Edit::ToggleJob(sink)];
            st.edits.extend(bumps.iter().cloned());
            if let Some(l) = lasts.first() {
                st.edits.push(Edit::Delete(*l, 1));
            }
            st.plan.fail = 0;
            st.plan.abort = None;
            let st2 = &mut sc.steps[2];
            st2.edits = vec![Edit::ToggleJob(sink)];
            st2.plan.fail = 0;
            st2.plan.abort = None;
        }
        2 => {
            // an output in the middle is deleted (and the roots change or not)
            let st = &mut sc.steps[1];
            st.edits = if var & 8 != 0 { bumps.clone() } else { vec![] };
            if !mids.is_empty() {
                let m = mids[(mv as usize) % mids.len()];
                st.edits.push(Edit::Delete(m, 1));
            } else {
                st.edits.push(Edit::Delete(lasts[0], 1));
            }
            st.plan.abort = None;
        }
        _ => {
            // an up-to-date re-run, or whatever edits were generated
            if var & 32 != 0 {
                sc.steps[1].edits.clear();
                sc.steps[1].plan.fail = 0;
                sc.steps[1].plan.abort = None;
            }
        }
    }
    if fail_root {
        // the root of the first chain is made to run and fails: an upstream-failure cascade through the
        // chain into the sink, past the delayed feeders
        let r = if common_root && sc.slots[0].kind == Kind::Always && var & 64 != 0 { 0 } else { chain_roots[0] };
        let st = &mut sc.steps[1];
        st.edits.push(Edit::Delete(r, 1));
        if sc.slots[r].kind == Kind::Always {
            st.edits.push(Edit::Bump(r));
        }
        st.plan.fail |= 1u32 << r;
        st.plan.abort = None;
    }
}

/// Mutational generation: a scenario of the regression corpus (the shrunk scenarios of earlier
/// findings and of caught seeded changes, /verif/replays) with 1-4 small generated changes.
/// Defects cluster: the neighbourhood of a scenario that once exposed one is a high-yield region.
/// Returns None when this byte string asks for ordinary generation.
pub fn mutate_from_corpus(data: &[u8], prof: &Profile, corpus: &[Scenario], p_corpus: u16) -> Option<Scenario> {
    if corpus.is_empty() || data.len() < 8 {
        return None;
    }
    // the last byte decides, so that ordinary decoding of the same string is unaffected
    let sel = data[data.len() - 1];
    if (255 - sel as u16) >= p_corpus {
        return None;
    }
    let mut src = Src::new(data);
    let mut sc = corpus[src.below(corpus.len().min(256))].clone();
    let allow_flaky = prof.force_off & F_FLAKY == 0;
    let nm = 1 + src.below(4);
    for _ in 0..nm {
        let n = sc.slots.len();
        if n == 0 || sc.steps.is_empty() {
            break;
        }
        let (op, a, b, c) = (src.u8(), src.u8(), src.u8(), src.u8());
        let slot = (a as usize * n) >> 8;
        let step = (a as usize * sc.steps.len()) >> 8;
        match op % 10 {
            0 => {
                if slot > 0 {
                    let up = (b as usize * slot) >> 8;
                    let deps = &mut sc.init[slot].deps;
                    if let Some(pos) = deps.iter().position(|d| d.0 == up) {
                        deps.remove(pos);
                    } else {
                        deps.push((up, 1 << (c % 3)));
                        deps.sort();
                    }
                }
            }
            1 => {
                sc.slots[slot].kind = match (sc.slots[slot].kind, b % 2) {
                    (Kind::Always, 0) => Kind::Output,
                    (Kind::Always, _) => Kind::Ephemeral,
                    (Kind::Output, 0) => Kind::Ephemeral,
                    (Kind::Output, _) => Kind::Always,
                    (Kind::Ephemeral, 0) => Kind::Output,
                    (Kind::Ephemeral, _) => Kind::Always,
                };
                if sc.slots[slot].kind != Kind::Ephemeral {
                    sc.slots[slot].flaky = false;
                }
            }
            2 => {
                let sl = (b as usize * n) >> 8;
                if sl < 32 {
                    sc.steps[step].plan.fail ^= 1 << sl;
                }
            }
            3 => {
                let plan = &mut sc.steps[step].plan;
                plan.abort = if plan.abort.is_some() { None } else { Some((((b as usize * (2 * n + 2)) >> 8) as u32, c >= 128)) };
            }
            4 => {
                let sch = decode_sched(&mut src, n, 0xffff);
                sc.steps[step].plan.sched = sch;
            }
            5 => {
                let sl = (b as usize * n) >> 8;
                let e = match c % 6 {
                    0 => Some(Edit::ToggleJob(sl)),
                    1 | 2 => {
                        if sl > 0 {
                            Some(Edit::ToggleDep { down: sl, up: (c as usize * sl) >> 8, mask: 1 << (c % 3) })
                        } else {
                            None
                        }
                    }
                    3 => (0..n).find(|i| sc.slots[*i].kind == Kind::Always).map(Edit::Bump),
                    4 => Some(Edit::Delete(sl, 1 + (c / 6) % 7)),
                    _ => Some(Edit::TogglePart(sl, (c / 6) % 4)),
                };
                if let (Some(e), true) = (e, step > 0) {
                    sc.steps[step].edits.push(e);
                }
            }
            6 => {
                if sc.steps.len() < 8 {
                    let mut st = sc.steps[sc.steps.len() - 1].clone();
                    st.edits.clear();
                    st.plan.fail = 0;
                    st.plan.abort = None;
                    sc.steps.push(st);
                }
            }
            7 => match b % 4 {
                0 => sc.cfg.stamps = !sc.cfg.stamps,
                1 => {
                    sc.cfg.scope = if sc.cfg.scope == Scope::Whole { Scope::Consumed } else { Scope::Whole };
                    if sc.cfg.scope == Scope::Consumed {
                        sc.cfg.anon = false;
                    }
                }
                2 => sc.cfg.names = if sc.cfg.names == Names::JobIds { Names::Outputs } else { Names::JobIds },
                _ => {
                    sc.cfg.anon = !sc.cfg.anon;
                    if sc.cfg.anon {
                        sc.cfg.scope = Scope::Whole;
                    }
                }
            },
            8 => sc.slots[slot].coarse = !sc.slots[slot].coarse,
            _ => {
                if allow_flaky && sc.slots[slot].kind == Kind::Ephemeral && b >= 128 {
                    sc.slots[slot].flaky = !sc.slots[slot].flaky;
                } else {
                    sc.init[slot].active = !sc.init[slot].active;
                }
            }
        }
    }
    if !allow_flaky {
        for sl in sc.slots.iter_mut() {
            sl.flaky = false;
        }
    }
    sc.motif = 100;
    Some(sc)
}
