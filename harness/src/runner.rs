//! Check runner: replay tier, multi-threaded proptest generation, shrinking, replay
//! files, known findings, evidence.
use crate::chain::*;
use crate::driver::Violation;
use crate::gen::*;
use crate::scenario::*;
use crate::shrink::shrink;
use proptest::strategy::Strategy;
use proptest::test_runner::{Config, RngAlgorithm, TestCaseError, TestError, TestRng, TestRunner};
use serde::{Deserialize, Serialize};
use std::collections::{BTreeMap, HashSet};
use std::sync::atomic::{AtomicBool, AtomicUsize, Ordering};
use std::sync::Mutex;

/// the directory holding MANIFEST.json, evidence/, replays/, known_findings.json
/// (set by the check script to where it lives; /verif by default)
pub fn verif_dir() -> String {
    std::env::var("VERIF_DIR").unwrap_or_else(|_| "/verif".to_string())
}

#[derive(Clone, Debug, Serialize, Deserialize)]
pub struct Finding {
    pub property: String,
    /// prefix of the violation signature `Cxx/clause`
    pub signature: String,
    /// all of these must occur in the violation detail
    #[serde(default)]
    pub detail_contains: Vec<String>,
    pub what: String,
    #[serde(default)]
    pub replay: String,
}

#[derive(Clone, Debug, Serialize, Deserialize, Default)]
pub struct KnownFindings {
    #[serde(default)]
    pub findings: Vec<Finding>,
    #[serde(default)]
    pub fixed: Vec<String>,
}

impl KnownFindings {
    pub fn load() -> KnownFindings {
        match std::fs::read_to_string(format!("{}/known_findings.json", verif_dir())) {
            Ok(s) => serde_json::from_str(&s).expect("known_findings.json does not parse"),
            Err(_) => KnownFindings::default(),
        }
    }
    pub fn matches(&self, v: &Violation) -> Option<usize> {
        let sig = v.sig();
        self.findings.iter().position(|f| sig.starts_with(&f.signature) && f.detail_contains.iter().all(|d| v.detail.contains(d)))
    }
}

#[derive(Clone, Debug, Serialize, Deserialize)]
pub struct Replay {
    pub property: String,
    pub signature: String,
    pub detail: String,
    pub step: usize,
    pub found_by: String,
    pub scenario: Scenario,
}

pub struct Spec {
    pub prop: &'static str,
    pub level: &'static str,
    pub profiles: Vec<Profile>,
    pub quick_cases: usize,
    pub thorough_cases: usize,
    pub rule: &'static str,
    pub assumptions: Vec<&'static str>,
}

fn prof(f: impl FnOnce(&mut Profile)) -> Profile {
    let mut p = Profile::default_quick();
    f(&mut p);
    p
}

pub fn spec_for(prop: &str) -> Option<Spec> {
    let base = Profile::default_quick();
    let eph = prof(|p| { p.kinds = [1, 2, 4]; p.p_dep = 130; });
    let eph_clean = prof(|p| { p.kinds = [1, 2, 4]; p.p_dep = 130; p.p_fail = 30; p.p_abort = 20; });
    let failing = prof(|p| { p.force_on |= F_FAIL; p.p_fail = 170; });
    let failing_eph = prof(|p| { p.force_on |= F_FAIL; p.p_fail = 170; p.kinds = [1, 2, 3]; p.p_dep = 120; });
    let aborting = prof(|p| { p.force_on |= F_ABORT; p.p_abort = 150; });
    // aborts while several jobs (often on-demand Ephemerals) are running
    let aborting_eph = prof(|p| { p.force_on |= F_ABORT | F_CONC; p.p_abort = 150; p.kinds = [1, 2, 3]; p.p_dep = 120; p.p_motif = 110; });
    let noisy = prof(|p| { p.force_on |= F_STAMPS; });
    let noisy_eph = prof(|p| { p.force_on |= F_STAMPS; p.kinds = [1, 2, 4]; p.p_dep = 130; });
    let multi = prof(|p| { p.force_on |= F_MULTI | F_TOGGLE_JOB | F_TOGGLE_DEP; });
    let multi_prod = prof(|p| { p.force_on |= F_MULTI | F_OUTNAMES | F_CONSUMED; });
    let flaky = prof(|p| { p.force_on |= F_FLAKY; p.force_off &= !F_FLAKY; p.kinds = [1, 2, 4]; p.p_dep = 130; p.p_fail = 20; p.p_abort = 10; });
    // flaky ephemerals end in EphemeralChangedOutput: the engine's own way of failing a job
    let flaky_failing = prof(|p| { p.force_on |= F_FLAKY | F_FAIL; p.force_off &= !F_FLAKY; p.kinds = [1, 2, 4]; p.p_dep = 130; p.p_fail = 90; p.p_abort = 30; });
    let conc = prof(|p| { p.force_on |= F_CONC | F_LATEACK; });
    let cleanish = prof(|p| { p.p_fail = 30; p.p_abort = 20; });
    let common_assumptions = vec![
        "the harness's simulated project (deterministic job behaviours, disk, temp store, ledger) is the ground truth; jobs only depend on declared, non-ignored inputs",
        "graphs of at most 8 jobs and chains of at most 5 evaluations (quick; a quarter of the scenarios: 11 jobs, 6 evaluations) / 12 jobs and 8 evaluations (thorough), four comparison configurations, two input-name conventions",
        "the driver follows the call protocol used by python/pypipegraph2/runner.py and src/tests.rs",
        "generated search: absence of a violation is shown only for the cases explored",
    ];
    let s = |prop: &'static str, level: &'static str, profiles: Vec<Profile>, quick: usize, thorough: usize, rule: &'static str| Spec {
        prop,
        level,
        profiles,
        quick_cases: quick,
        thorough_cases: thorough,
        rule,
        assumptions: common_assumptions.clone(),
    };
    Some(match prop {
        "C01" => s("C01", "exploration", vec![base.clone(), cleanish.clone(), multi_prod.clone(), eph.clone()], 640_000, 8_000_000,
            "scenario = chain of evaluations decoded from a generated byte string; non-trivial = a clean evaluation (index>0, i.e. after edits/faults) that skipped >=1 Output job and executed >=1 job; distinct by canonical form (config, kinds, edges, per-job disposition and had-record flag)"),
        "C02" => s("C02", "exploration", vec![eph.clone(), eph_clean.clone(), noisy_eph.clone(), conc.clone(), flaky_failing.clone()], 640_000, 8_000_000,
            "non-trivial = evaluation in which an up-to-date (validated) Ephemeral was executed on demand for a consumer; distinct by canonical form"),
        "C03" => s("C03", "exploration", vec![base.clone(), multi_prod.clone(), eph.clone(), failing.clone(), flaky.clone()], 640_000, 8_000_000,
            "non-trivial = evaluation with >=1 skipped job where a skipped job sits below an executed upstream (comparison consulted) or the history came from an unclean/edited predecessor; distinct by canonical form"),
        "C04" => s("C04", "exploration", vec![base.clone(), multi_prod.clone(), eph.clone(), noisy.clone()], 640_000, 8_000_000,
            "non-trivial = evaluation with >=1 executed and >=1 non-useless skipped job, or with a re-executed upstream judged unaltered (shielding); distinct by canonical form"),
        "C05" => s("C05", "exploration", vec![conc.clone(), base.clone(), failing_eph.clone(), eph.clone(), flaky_failing.clone()], 640_000, 8_000_000,
            "non-trivial = evaluation with >=2 jobs running concurrently, a failure, or delayed/never acknowledged cleanups; distinct by canonical form x concurrency x ack mode"),
        "C06" => s("C06", "exploration", vec![failing.clone(), failing_eph.clone(), aborting.clone(), base.clone(), flaky_failing.clone()], 800_000, 10_000_000,
            "non-trivial = evaluation in which a job that already had history failed / was aborted, or the evaluation following an unclean one; distinct by canonical form"),
        "C07" => s("C07", "exploration", vec![failing.clone(), failing_eph.clone(), flaky_failing.clone()], 480_000, 6_000_000,
            "non-trivial = evaluation with >=1 failed job and >=1 job without failed ancestor; failure-free twin run for each; distinct by canonical form"),
        "C08" => s("C08", "exploration", vec![failing.clone(), failing_eph.clone(), aborting.clone(), flaky_failing.clone()], 480_000, 6_000_000,
            "non-trivial = evaluation in which a failed job had an own and a per-dependency record in the input history; follow-up evaluation for each; distinct by canonical form"),
        "C09" => s("C09", "exploration", vec![failing.clone(), aborting.clone(), failing_eph.clone(), aborting_eph.clone()], 400_000, 5_000_000,
            "non-trivial = interrupted evaluation that left >=1 never-started up-to-date job and >=1 job that succeeded before the interruption (uninterrupted twin + resume run for each); distinct by canonical form"),
        "C10" => s("C10", "fault_enumeration", vec![base.clone(), conc.clone(), eph.clone(), flaky_failing.clone()], 48_000, 600_000,
            "for every evaluation of a generated chain EVERY prefix length of its schedule x both abort styles is replayed (enumeration inside generation); non-trivial = abort point with >=1 job ready or >=2 running; distinct by canonical form x abort point x style"),
        "C11" => s("C11", "exploration", vec![base.clone(), multi_prod.clone(), noisy.clone(), failing.clone(), flaky_failing.clone()], 640_000, 8_000_000,
            "non-trivial = evaluation with an executed->skipped or skipped->executed edge; distinct by canonical form"),
        "C12" => s("C12", "exploration", vec![cleanish.clone(), noisy.clone(), noisy_eph.clone(), multi_prod.clone()], 480_000, 6_000_000,
            "non-trivial = clean evaluation of a graph with >=1 Output job having >=1 upstream, re-evaluated with the returned history under another schedule; distinct by canonical form"),
        "C13" => s("C13", "exploration", vec![eph.clone(), conc.clone(), failing_eph.clone(), flaky_failing.clone()], 640_000, 8_000_000,
            "non-trivial = evaluation with an executed Ephemeral having >=2 consumers of which >=1 was skipped; distinct by canonical form"),
        "C14" => s("C14", "exploration", vec![cleanish.clone(), eph_clean.clone(), multi_prod.clone()], 160_000, 3_000_000,
            "every clean evaluation is repeated from the same pre-state under two other schedules/declaration orders and once identically; non-trivial = the twins' start orders actually differ; distinct by canonical form x concurrency"),
        "C15" => s("C15", "exploration", vec![noisy.clone(), noisy_eph.clone(), prof(|p| { p.force_on |= F_STAMPS | F_FAIL | F_ABORT; p.kinds = [1, 2, 3]; })], 320_000, 4_000_000,
            "scenario under a stamp-ignoring comparison, run in lock step with its stamp-free twin; non-trivial = evaluation in which the comparison was consulted with textually different arguments that it judged unaltered; distinct by canonical form"),
        "C16" => s("C16", "exploration", vec![flaky.clone(), prof(|p| { p.force_on |= F_FLAKY | F_STAMPS; p.force_off &= !F_FLAKY; p.kinds = [1, 2, 4]; p.p_dep = 130; p.p_fail = 20; p.p_abort = 10; }), eph_clean.clone()], 640_000, 8_000_000,
            "scenarios with flaky Ephemerals (product depends on the evaluation number); non-trivial = evaluation in which an up-to-date Ephemeral was executed on demand; both branches (error expected / not expected) counted; distinct by canonical form"),
        "C17" => s("C17", "exploration", vec![conc.clone(), failing_eph.clone(), base.clone(), aborting.clone(), flaky_failing.clone()], 640_000, 8_000_000,
            "non-trivial = evaluation with >=2 jobs running concurrently or a failure; every internal transition checked via the hook log; distinct by canonical form x concurrency"),
        "C18" => s("C18", "exploration", vec![multi.clone(), multi_prod.clone(), prof(|p| { p.force_on |= F_MULTI | F_TOGGLE_JOB | F_FAIL; })], 640_000, 8_000_000,
            "non-trivial = evaluation whose input history mentions an absent job, a removed dependency between present jobs, or a superseded (renamed multi-output) id; distinct by canonical form"),
        "C20" => s("C20", "fault_enumeration", vec![base.clone(), conc.clone(), failing_eph.clone(), flaky_failing.clone()], 64_000, 800_000,
            "at every step of every evaluation of a generated chain EVERY illegal call (start not-offered, success/failure not-running, cleanup not-offered; startup twice) on EVERY known job is tried; non-trivial = evaluation with probes and >=1 executed job; distinct by canonical form x number of probes"),
        _ => return None,
    })
}

#[derive(Default)]
pub struct Agg {
    pub cases: usize,
    pub evals: usize,
    pub main_evals: usize,
    pub nontrivial: HashSet<u64>,
    pub nontrivial_total: usize,
    pub counters: BTreeMap<String, usize>,
    pub samples: Vec<serde_json::Value>,
    pub known_hits: BTreeMap<usize, usize>,
    pub foreign: BTreeMap<String, usize>,
}

pub struct RunResult {
    pub agg: Agg,
    pub violation: Option<Replay>,
}

fn own_violation<'a>(out: &'a CaseOut, prop: &str, known: &KnownFindings, agg: Option<&mut Agg>) -> Option<&'a (usize, Violation)> {
    let mut first: Option<&(usize, Violation)> = None;
    let mut agg = agg;
    for sv in out.violations.iter() {
        if let Some(k) = known.matches(&sv.1) {
            if let Some(a) = agg.as_mut() {
                *a.known_hits.entry(k).or_insert(0) += 1;
            }
            // engine state after a known defect is not trusted: ignore the rest of the scenario
            break;
        }
        if sv.1.prop == prop {
            if first.is_none() {
                first = Some(sv);
            }
        } else if let Some(a) = agg.as_mut() {
            *a.foreign.entry(sv.1.sig()).or_insert(0) += 1;
        }
    }
    first
}

fn absorb(agg: &mut Agg, out: &CaseOut) {
    agg.cases += 1;
    agg.evals += out.evals;
    agg.main_evals += out.main_evals;
    agg.nontrivial_total += out.nontrivial.len();
    for h in out.nontrivial.iter() {
        agg.nontrivial.insert(*h);
    }
    for (k, v) in out.counters.iter() {
        *agg.counters.entry(k.to_string()).or_insert(0) += v;
    }
    if agg.samples.len() < 2 {
        if let Some(s) = &out.sample {
            agg.samples.push(s.clone());
        }
    }
}

fn seed_bytes(seed: u64, thread: usize) -> [u8; 32] {
    let mut b = [0u8; 32];
    let mut x = seed ^ 0x9e3779b97f4a7c15u64.wrapping_mul(thread as u64 + 1);
    for i in 0..4 {
        x ^= x << 13;
        x ^= x >> 7;
        x ^= x << 17;
        x = x.wrapping_mul(0x2545F4914F6CDD1D);
        b[i * 8..(i + 1) * 8].copy_from_slice(&x.to_le_bytes());
    }
    b
}

/// does `sc` still show a violation of `prop` with clause `clause`? (repeated: the
/// engine's own hash maps are randomly seeded per instance)
pub fn shows(sc: &Scenario, mode: &Mode, prop: &str, clause: &str, known: &KnownFindings, reps: usize) -> Option<(usize, Violation)> {
    for _ in 0..reps {
        let out = run_case(sc, mode);
        for sv in out.violations.iter() {
            if known.matches(&sv.1).is_some() {
                break;
            }
            if sv.1.prop == prop && (clause.is_empty() || sv.1.clause == clause) {
                return Some(sv.clone());
            }
        }
    }
    None
}

pub fn minimise(sc: &Scenario, mode: &Mode, prop: &str, first: &(usize, Violation), known: &KnownFindings) -> (Scenario, (usize, Violation)) {
    // cut the chain after the violating step first
    let mut start = sc.clone();
    if first.0 + 1 < start.steps.len() {
        let mut t = start.clone();
        t.steps.truncate(first.0 + 1);
        if shows(&t, mode, prop, &first.1.clause, known, 4).is_some() {
            start = t;
        }
    }
    let clause = first.1.clause.clone();
    let mut pred = |c: &Scenario| shows(c, mode, prop, &clause, known, 3).is_some();
    let (small, _tried) = shrink(&start, &mut pred, 6000);
    let v = shows(&small, mode, prop, &clause, known, 16).unwrap_or_else(|| first.clone());
    (small, v)
}

/// the mode of a check, including how much schedule enumeration its tier does
pub fn mode_for(prop: &'static str, thorough: bool) -> Mode {
    let mut m = Mode::for_prop(prop);
    let (cap, jobs) = match (prop, thorough) {
        ("C14", false) => (48, 4),
        ("C14", true) => (600, 6),
        ("C02", true) | ("C05", true) | ("C07", true) | ("C13", true) | ("C17", true) => (300, 5),
        _ => (0, 0),
    };
    m.enum_cap = cap;
    m.enum_jobs = jobs;
    m
}

/// the regression corpus for mutational generation: every stored scenario of every property
pub fn load_corpus() -> Vec<Scenario> {
    let mut v = vec![];
    let root = format!("{}/replays", verif_dir());
    let mut dirs: Vec<std::path::PathBuf> = match std::fs::read_dir(&root) {
        Ok(rd) => rd.filter_map(|e| e.ok()).map(|e| e.path()).filter(|p| p.is_dir() && p.file_name().map(|n| n != "found").unwrap_or(false)).collect(),
        Err(_) => vec![],
    };
    dirs.sort();
    for d in dirs {
        let mut files: Vec<std::path::PathBuf> = std::fs::read_dir(&d).map(|rd| rd.filter_map(|e| e.ok()).map(|e| e.path()).collect()).unwrap_or_default();
        files.sort();
        for f in files {
            if let Ok(r) = load_replay(&f) {
                v.push(r.scenario);
            }
        }
    }
    v
}

/// share (of 256) of the generated cases that are mutations of a corpus scenario
pub const P_CORPUS: u16 = 40;

pub fn run_generated(spec: &Spec, cases: usize, seed: u64, threads: usize, large: bool) -> RunResult {
    let known = KnownFindings::load();
    let corpus = load_corpus();
    let mode = mode_for(spec.prop, large);
    let agg = Mutex::new(Agg::default());
    let stop = AtomicBool::new(false);
    let found: Mutex<Option<(Vec<u8>, Profile, String)>> = Mutex::new(None);
    let done = AtomicUsize::new(0);
    let per_thread = (cases + threads - 1) / threads;
    std::thread::scope(|sc| {
        for t in 0..threads {
            let agg = &agg;
            let stop = &stop;
            let found = &found;
            let known = &known;
            let mode = &mode;
            let done = &done;
            let corpus = &corpus;
            let mut profile = spec.profiles[t % spec.profiles.len()].clone();
            if large {
                profile.max_slots = 12;
                profile.max_steps = 8;
            } else if t % 4 == 3 {
                // a quarter of the quick tier's threads works on the larger universe too (structures that
                // need nine and more jobs are otherwise reached by motifs and the thorough tier only)
                profile.max_slots = 11;
                profile.max_steps = 6;
            }
            let prop = spec.prop;
            sc.spawn(move || {
                crate::driver::install_panic_hook();
                let len = profile.bytes_needed();
                let strategy = proptest::collection::vec(proptest::num::u8::ANY, len..=len);
                let config = Config {
                    cases: per_thread as u32,
                    failure_persistence: None,
                    max_shrink_iters: 150,
                    ..Config::default()
                };
                let mut runner = TestRunner::new_with_rng(config, TestRng::from_seed(RngAlgorithm::ChaCha, &seed_bytes(seed, t)));
                let local = std::cell::RefCell::new(Agg::default());
                let failed_here = std::cell::Cell::new(false);
                let result = runner.run(&strategy, |bytes| {
                    if stop.load(Ordering::Relaxed) && !failed_here.get() {
                        return Ok(());
                    }
                    let scn = mutate_from_corpus(&bytes, &profile, corpus, P_CORPUS).unwrap_or_else(|| decode(&bytes, &profile));
                    let out = run_case(&scn, mode);
                    let counting = !failed_here.get();
                    let mut lb = local.borrow_mut();
                    let v = own_violation(&out, prop, known, if counting { Some(&mut *lb) } else { None });
                    if counting {
                        absorb(&mut *lb, &out);
                        done.fetch_add(1, Ordering::Relaxed);
                    }
                    match v {
                        Some((_step, v)) => {
                            failed_here.set(true);
                            stop.store(true, Ordering::Relaxed);
                            Err(TestCaseError::fail(v.sig()))
                        }
                        None => Ok(()),
                    }
                });
                if let Err(TestError::Fail(reason, bytes)) = result {
                    let mut f = found.lock().unwrap();
                    if f.is_none() {
                        *f = Some((bytes, profile.clone(), reason.message().to_string()));
                    }
                }
                let local = local.into_inner();
                let mut a = agg.lock().unwrap();
                a.cases += local.cases;
                a.evals += local.evals;
                a.main_evals += local.main_evals;
                a.nontrivial_total += local.nontrivial_total;
                a.nontrivial.extend(local.nontrivial);
                for (k, v) in local.counters {
                    *a.counters.entry(k).or_insert(0) += v;
                }
                for (k, v) in local.known_hits {
                    *a.known_hits.entry(k).or_insert(0) += v;
                }
                for (k, v) in local.foreign {
                    *a.foreign.entry(k).or_insert(0) += v;
                }
                if a.samples.len() < 4 {
                    a.samples.extend(local.samples.into_iter().take(1));
                }
            });
        }
    });
    let agg = agg.into_inner().unwrap();
    let found = found.into_inner().unwrap();
    let violation = found.and_then(|(bytes, profile, _reason)| {
        let scn = mutate_from_corpus(&bytes, &profile, &corpus, P_CORPUS).unwrap_or_else(|| decode(&bytes, &profile));
        let first = shows(&scn, &mode, spec.prop, "", &known, 32)?;
        let (small, v) = minimise(&scn, &mode, spec.prop, &first, &known);
        Some(Replay {
            property: spec.prop.to_string(),
            signature: v.1.sig(),
            detail: v.1.detail.clone(),
            step: v.0,
            found_by: format!("proptest seed={} (shrunk by proptest, then scenario-level delta debugging)", seed),
            scenario: small,
        })
    });
    RunResult { agg, violation }
}

pub fn replay_files(prop: &str) -> Vec<std::path::PathBuf> {
    let dir = format!("{}/replays/{}", verif_dir(), prop);
    let mut v: Vec<std::path::PathBuf> = match std::fs::read_dir(&dir) {
        Ok(rd) => rd.filter_map(|e| e.ok()).map(|e| e.path()).filter(|p| p.extension().map(|x| x == "json").unwrap_or(false)).collect(),
        Err(_) => vec![],
    };
    v.sort();
    v
}

pub fn load_replay(path: &std::path::Path) -> Result<Replay, String> {
    let s = std::fs::read_to_string(path).map_err(|e| format!("{}: {}", path.display(), e))?;
    serde_json::from_str(&s).map_err(|e| format!("{}: {}", path.display(), e))
}

/// run a stored scenario under the mode of `prop`; returns the violation if it shows
pub fn run_replay(prop: &str, rp: &Replay, agg: &mut Agg) -> Option<(usize, Violation)> {
    let known = KnownFindings::load();
    let mode = match spec_for(prop) {
        Some(s) => mode_for(s.prop, true),
        None => Mode::all(),
    };
    let out = run_case(&rp.scenario, &mode);
    absorb(agg, &out);
    if let Some(v) = own_violation(&out, prop, &known, Some(agg)) {
        return Some(v.clone());
    }
    shows(&rp.scenario, &mode, prop, "", &known, 31)
}

pub fn write_replay(rp: &Replay) -> String {
    let dir = format!("{}/replays/found", verif_dir());
    let _ = std::fs::create_dir_all(&dir);
    let h = crate::world::hstr(&serde_json::to_string(&rp.scenario).unwrap());
    let path = format!("{}/{}-{:012x}.json", dir, rp.property, h & 0xffff_ffff_ffff);
    std::fs::write(&path, serde_json::to_string_pretty(rp).unwrap()).expect("cannot write replay file");
    path
}

/// development aid: histogram of all violation signatures over generated scenarios
/// (all modes on, nothing stops at the first violation)
pub fn survey(spec: &Spec, cases: usize, seed: u64, threads: usize, mode: &Mode) -> BTreeMap<String, (usize, String)> {
    use proptest::strategy::{Strategy, ValueTree};
    let hist: Mutex<BTreeMap<String, (usize, String)>> = Mutex::new(BTreeMap::new());
    let per_thread = (cases + threads - 1) / threads;
    std::thread::scope(|sc| {
        for t in 0..threads {
            let hist = &hist;
            let profile = spec.profiles[t % spec.profiles.len()].clone();
            sc.spawn(move || {
                crate::driver::install_panic_hook();
                let len = profile.bytes_needed();
                let strategy = proptest::collection::vec(proptest::num::u8::ANY, len..=len);
                let mut runner = TestRunner::new_with_rng(Config::default(), TestRng::from_seed(RngAlgorithm::ChaCha, &seed_bytes(seed, t)));
                let mut local: BTreeMap<String, (usize, String)> = BTreeMap::new();
                for _ in 0..per_thread {
                    let bytes = strategy.new_tree(&mut runner).unwrap().current();
                    let scn = decode(&bytes, &profile);
                    let out = run_case(&scn, mode);
                    for (step, v) in out.violations.iter() {
                        let e = local.entry(v.sig()).or_insert((0, String::new()));
                        e.0 += 1;
                        if e.1.is_empty() {
                            e.1 = format!("step {} {} :: {}", step, v.detail, serde_json::to_string(&scn).unwrap());
                        }
                    }
                }
                let mut h = hist.lock().unwrap();
                for (k, (n, ex)) in local {
                    let e = h.entry(k).or_insert((0, String::new()));
                    e.0 += n;
                    if e.1.is_empty() || e.1.len() > ex.len() {
                        e.1 = ex;
                    }
                }
            });
        }
    });
    hist.into_inner().unwrap()
}

/// the fixed profile of the libFuzzer targets (the byte format is part of the corpus)
pub fn fuzz_profile() -> Profile {
    let mut p = Profile::default_quick();
    p.p_fail = 100;
    p.p_abort = 60;
    p.kinds = [1, 2, 2];
    p
}

/// sensitivity aid (tools/automutate.py): all oracles of all properties at once over the
/// union of all profiles; stops at the first violation of any property and returns it
pub fn scan(cases: usize, seed: u64, threads: usize) -> (usize, Option<(String, String)>) {
    use proptest::strategy::{Strategy, ValueTree};
    let mut profiles: Vec<Profile> = vec![];
    let mut seen: HashSet<String> = HashSet::new();
    for p in ["C01", "C02", "C03", "C04", "C05", "C06", "C07", "C08", "C09", "C10", "C11", "C12", "C13", "C14", "C15", "C16", "C17", "C18", "C20"] {
        for pr in spec_for(p).unwrap().profiles {
            if seen.insert(format!("{:?}", pr)) {
                profiles.push(pr);
            }
        }
    }
    let mut mode = Mode::all();
    mode.enum_cap = 24;
    mode.enum_jobs = 4;
    let stop = AtomicBool::new(false);
    let found: Mutex<Option<(String, String)>> = Mutex::new(None);
    let done = AtomicUsize::new(0);
    let per_thread = (cases + threads - 1) / threads;
    std::thread::scope(|sc| {
        for t in 0..threads {
            let (stop, found, done, mode, profiles) = (&stop, &found, &done, &mode, &profiles);
            sc.spawn(move || {
                crate::driver::install_panic_hook();
                let mut runner = TestRunner::new_with_rng(Config::default(), TestRng::from_seed(RngAlgorithm::ChaCha, &seed_bytes(seed, t)));
                for i in 0..per_thread {
                    if stop.load(Ordering::Relaxed) {
                        return;
                    }
                    let profile = &profiles[(i * threads + t) % profiles.len()];
                    let len = profile.bytes_needed();
                    let strategy = proptest::collection::vec(proptest::num::u8::ANY, len..=len);
                    let bytes = strategy.new_tree(&mut runner).unwrap().current();
                    let scn = decode(&bytes, profile);
                    let out = run_case(&scn, mode);
                    done.fetch_add(1, Ordering::Relaxed);
                    if let Some((_, v)) = out.violations.first() {
                        stop.store(true, Ordering::Relaxed);
                        let mut f = found.lock().unwrap();
                        if f.is_none() {
                            *f = Some((v.sig(), v.detail.chars().take(200).collect()));
                        }
                        return;
                    }
                }
            });
        }
    });
    (done.load(Ordering::Relaxed), found.into_inner().unwrap())
}
