//! Post-hoc oracles over one evaluation: C01, C03, C04, C08, C09 (records), C11,
//! C13 (completeness), C16, C18, C07 (final).  Inputs: the world before and after the
//! evaluation, the event log (`EvalOut`), the input and returned history.
use crate::driver::*;
use crate::model::*;
use crate::scenario::*;
use crate::world::*;
use std::collections::{BTreeMap, BTreeSet};

fn push(out: &mut Vec<Violation>, prop: &'static str, clause: impl Into<String>, detail: impl Into<String>) {
    out.push(Violation {
        prop,
        clause: clause.into(),
        detail: detail.into(),
    });
}

/// index: downstream id -> per-dependency keys `x!!!downstream` of h_in u h_out
fn index_dep_keys<'a>(
    h_in: &'a BTreeMap<String, String>,
    h_out: &'a BTreeMap<String, String>,
) -> BTreeMap<&'a str, BTreeSet<&'a String>> {
    let mut m: BTreeMap<&str, BTreeSet<&String>> = BTreeMap::new();
    for k in h_in.keys().chain(h_out.keys()) {
        if let Some((a, b)) = k.split_once("!!!") {
            if !a.is_empty() && !b.is_empty() {
                m.entry(b).or_default().insert(k);
            }
        }
    }
    m
}

/// keys of `h_in` u `h_out` of the form `x!!!j` that C08/C09 require unchanged:
/// x a current upstream of j, or x absent from the graph
fn dep_keys_in_range<'a>(
    post: &World,
    ids: &BTreeMap<String, usize>,
    j: &str,
    index: &BTreeMap<&'a str, BTreeSet<&'a String>>,
) -> Vec<&'a String> {
    let suffix_len = j.len() + 3;
    match index.get(j) {
        None => vec![],
        Some(keys) => keys
            .iter()
            .filter(|k| {
                let a = &k[..k.len() - suffix_len];
                match (ids.get(a), ids.get(j)) {
                    (Some(sa), Some(sj)) => post.has_dep(*sj, *sa),
                    _ => true,
                }
            })
            .cloned()
            .collect(),
    }
}

pub struct PostHoc {
    pub model: Option<ModelOut>,
    pub validly_skipped: BTreeSet<String>,
}

pub fn posthoc(pre: &World, post: &World, res: &mut EvalOut) -> PostHoc {
    let mut v: Vec<Violation> = vec![];
    let mut ph = PostHoc {
        model: None,
        validly_skipped: BTreeSet::new(),
    };
    let h_out = match &res.new_history {
        Some(h) => h.clone(),
        None => return ph,
    };
    let h_in = &pre.history;
    let mut pre2 = pre.clone();
    pre2.evalno += 1;
    pre2.forget_superseded();
    let ids = res.ids.clone();
    let act = post.active();
    let useless = post.useless();
    let clean = res.clean();
    let tainted = post.tainted;
    let dep_index = index_dep_keys(h_in, &h_out);
    let cur_actual = |u: usize| -> Option<String> {
        let uid = post.id(u);
        match res.disp.get(&uid) {
            // a job that was never started still has the output it produced last time
            // (also one that was cut off by an abort: nothing it did is recorded)
            Some(Disp::ExecFailed) => None,
            _ => res.cur.get(&uid).cloned(),
        }
    };

    // ---------------- C01
    if clean && !tainted {
        let cb = post.clean_build();
        for &s in act.iter() {
            if post.kind(s) == Kind::Output {
                for p in parts_of(post.parts(s)) {
                    let n = part_name(s, p);
                    if post.disk.get(&n) != cb.get(&n) {
                        let jid = post.id(s);
                        let how = match res.disp.get(&jid) {
                            Some(Disp::Skipped) => "stale-output-of-skipped-job",
                            Some(Disp::ExecOk) => "wrong-output-of-executed-job",
                            _ => "wrong-output",
                        };
                        push(&mut v, "C01", how, format!("{}: disk={:?} clean build={:?} writer={:?}", n, post.disk.get(&n), cb.get(&n), post.disk_writer.get(&n)));
                    }
                }
            }
        }
    }

    // ---------------- C03: skipped => up to date
    // (also in a world with flaky Ephemerals: the predicate speaks about records and about what
    // the jobs actually consumed and reported, not about what they ought to have computed)
    {
        for &s in act.iter() {
            let id = post.id(s);
            if useless.contains(&s) {
                continue;
            }
            let d = res.disp.get(&id).cloned().unwrap_or(Disp::Other);
            if d == Disp::Skipped || d == Disp::Other {
                match utd(&pre2, h_in, s, &cur_actual) {
                    Ok(()) => {
                        ph.validly_skipped.insert(id.clone());
                    }
                    Err(why) => {
                        push(&mut v, "C03", format!("skipped-but-{}", why), format!("{} ({:?}) final state {}", id, post.kind(s), res.final_states.get(&id).cloned().unwrap_or_default()));
                    }
                }
            }
        }
    }

    // ---------------- C04
    if !tainted {
        let m = model_exec(pre);
        for u in m.useless.iter() {
            if res.executed.contains(u) {
                push(&mut v, "C04", "useless-ephemeral-executed", u.clone());
            }
        }
        for j in res.executed.iter() {
            if !m.exec.contains(j) && !m.useless.contains(j) {
                let s = ids[j];
                let clause = if clean { "extra-execution" } else { "extra-execution-under-failure" };
                push(&mut v, "C04", format!("{}/{:?}", clause, post.kind(s)), format!("{} executed but is up to date and not needed; model executes {:?}", j, m.exec));
            }
        }
        if clean {
            for j in m.exec.iter() {
                if !res.executed.contains(j) {
                    let why = m.why.get(j).cloned().unwrap_or_else(|| "needed-by-executed-consumer".into());
                    push(&mut v, "C04", format!("missing-execution/{}", why), format!("{} not executed", j));
                }
            }
        }
        ph.model = Some(m);
    }

    // ---------------- C08: failed work is never recorded as done
    for j in res.failed.iter() {
        if h_out.contains_key(j) {
            push(&mut v, "C08", "failed-job-has-output-record", j.clone());
        }
        if h_out.contains_key(&format!("{}!!!", j)) {
            push(&mut v, "C08", "failed-job-has-input-list-record", j.clone());
        }
        for k in dep_keys_in_range(post, &ids, j, &dep_index) {
            if h_in.get(k) != h_out.get(k) {
                push(&mut v, "C08", "dependency-record-of-failed-job-changed", format!("{}: {:?} -> {:?}", k, h_in.get(k), h_out.get(k)));
            }
        }
    }

    // ---------------- C09 (records): never started because of upstream failure / abort
    for (j, d) in res.disp.iter() {
        if (*d == Disp::UpstreamFailed || *d == Disp::Aborted) && !res.executed.contains(j) {
            if ids.get(j).map(|s| useless.contains(s)).unwrap_or(false) {
                // never needed: not "never started because an upstream failed or the run was aborted"
                continue;
            }
            let what = if *d == Disp::Aborted { "aborted" } else { "upstream-failed" };
            if h_in.get(j) != h_out.get(j) {
                push(&mut v, "C09", format!("own-record-of-{}-job-changed", what), format!("{}: {:?} -> {:?}", j, h_in.get(j), h_out.get(j)));
            }
            let ik = format!("{}!!!", j);
            if h_in.get(&ik) != h_out.get(&ik) {
                push(&mut v, "C09", format!("input-list-of-{}-job-changed", what), format!("{}: {:?} -> {:?}", ik, h_in.get(&ik), h_out.get(&ik)));
            }
            for k in dep_keys_in_range(post, &ids, j, &dep_index) {
                let upstream = &k[..k.len() - j.len() - 3];
                if res.flipped.contains(j) && post.superseded(upstream, &ids) {
                    // skipped (= recorded against the new name of its upstream) before the
                    // upstream failure reached it
                    continue;
                }
                // a job that was validly skipped before an upstream failure reached it has its
                // per-dependency records refreshed to the (unaltered) current upstream output:
                // unchanged is judged by the configured comparison here, textually elsewhere
                let same = match (h_in.get(k), h_out.get(k)) {
                    (Some(a), Some(b)) => a == b || !post.altered(&k[..k.len() - j.len() - 3], j, a, b),
                    (None, None) => true,
                    (None, Some(b)) if res.flipped.contains(j) && ids.contains_key(upstream) => {
                        // skipped (= recorded against the current name of a renamed upstream)
                        // before the upstream failure reached it: the new key must carry what the
                        // job's record under the old name said, as judged by the comparison
                        let parts: BTreeSet<&str> = upstream.split(":::").collect();
                        dep_index.get(j.as_str()).map(|keys| {
                            keys.iter().any(|ok| {
                                let old_up = &ok[..ok.len() - j.len() - 3];
                                old_up != upstream
                                    && post.superseded(old_up, &ids)
                                    && old_up.split(":::").any(|p| parts.contains(p))
                                    && h_in.get(*ok).map(|a| !post.altered(upstream, j, a, b)).unwrap_or(false)
                            })
                        }).unwrap_or(false)
                    }
                    _ => false,
                };
                if !same {
                    push(&mut v, "C09", format!("dependency-record-of-{}-job-changed", what), format!("{}: {:?} -> {:?}", k, h_in.get(k), h_out.get(k)));
                }
            }
        }
    }

    // ---------------- C11: successful work is recorded faithfully
    for j in res.succeeded.iter() {
        let s0 = ids[j];
        if h_out.get(j) != res.reported.get(j) {
            push(&mut v, "C11", "own-record-not-the-reported-output", format!("{}: {:?} vs reported {:?}", j, h_out.get(j), res.reported.get(j)));
        }
        if h_out.get(&format!("{}!!!", j)) != Some(&post.input_list(s0)) {
            push(&mut v, "C11", "input-list-record-wrong", format!("{}: {:?} vs {:?}", j, h_out.get(&format!("{}!!!", j)), post.input_list(s0)));
        }
        for (u, _) in post.deps_of(s0) {
            let uid = post.id(u);
            let k = format!("{}!!!{}", uid, j);
            let consumed = res.consumed_at_start.get(j).and_then(|m| m.get(&uid));
            match (h_out.get(&k), consumed) {
                (Some(a), Some(b)) => {
                    let u_executed = res.succeeded.contains(&uid);
                    if u_executed && a != b {
                        push(&mut v, "C11", "dependency-record-not-the-consumed-output", format!("{}: {} vs consumed {}", k, a, b));
                    } else if a != b && post.altered(&uid, j, a, b) {
                        push(&mut v, "C11", "dependency-record-altered-vs-consumed-output", format!("{}: {} vs consumed {}", k, a, b));
                    }
                }
                (None, _) => push(&mut v, "C11", "dependency-record-missing", k.clone()),
                _ => {}
            }
        }
    }
    for j in ph.validly_skipped.iter() {
        let s0 = match ids.get(j) {
            Some(s) => *s,
            None => continue,
        };
        if useless.contains(&s0) {
            continue;
        }
        if h_out.get(j).is_none() || h_out.get(j) != h_in.get(j) {
            push(&mut v, "C11", "own-record-of-skipped-job-not-retained", format!("{}: {:?} -> {:?}", j, h_in.get(j), h_out.get(j)));
        }
        let ik = format!("{}!!!", j);
        if h_out.get(&ik).is_none() || h_out.get(&ik) != h_in.get(&ik) {
            push(&mut v, "C11", "input-list-of-skipped-job-not-retained", format!("{}: {:?} -> {:?}", ik, h_in.get(&ik), h_out.get(&ik)));
        }
        for (u, _) in post.deps_of(s0) {
            let uid = post.id(u);
            let k = format!("{}!!!{}", uid, j);
            match (h_out.get(&k), cur_actual(u)) {
                (Some(a), Some(c)) => {
                    if post.altered(&uid, j, a, &c) {
                        push(&mut v, "C11", "dependency-record-of-skipped-job-altered-vs-current", format!("{}: {} vs current {}", k, a, c));
                    }
                }
                (None, _) => push(&mut v, "C11", "dependency-record-of-skipped-job-missing", k.clone()),
                _ => {}
            }
        }
    }

    // ---------------- C13 completeness
    if !res.aborted {
        for j in res.succeeded.iter() {
            let s0 = ids[j];
            if post.kind(s0) != Kind::Ephemeral {
                continue;
            }
            let mut all_ok = true;
            for d in post.consumers_of(s0) {
                let did = post.id(d);
                match res.disp.get(&did) {
                    Some(Disp::ExecOk) => {}
                    Some(Disp::Skipped) => {}
                    _ => all_ok = false,
                }
            }
            if all_ok && !res.offered_cleanup.contains(j) {
                push(&mut v, "C13", "never-offered-for-cleanup", format!("{} final state {}", j, res.final_states.get(j).cloned().unwrap_or_default()));
            }
        }
    }

    // ---------------- C16
    {
        let mut expected: BTreeSet<String> = BTreeSet::new();
        for (id, rec) in res.reported.iter() {
            let s2 = ids[id];
            if post.kind(s2) != Kind::Ephemeral {
                continue;
            }
            let is_utd = utd(&pre2, h_in, s2, &cur_actual).is_ok();
            if is_utd {
                if let Some(old) = h_in.get(id) {
                    if pre2.altered(id, "!!!", old, rec) {
                        expected.insert(id.clone());
                    }
                }
            }
        }
        for j in expected.iter() {
            if !res.eco.contains(j) {
                push(&mut v, "C16", "changed-output-of-validated-ephemeral-not-detected", j.clone());
            }
        }
        for j in res.eco.iter() {
            if !expected.contains(j) {
                let s2 = ids[j];
                let why = match utd(&pre2, h_in, s2, &cur_actual) {
                    Ok(()) => "output-unaltered".to_string(),
                    Err(e) => format!("inputs-changed({})", e),
                };
                push(&mut v, "C16", format!("spurious-error/{}", why.split('(').next().unwrap()), format!("{} {}", j, why));
            }
            if h_out.contains_key(j) || h_out.contains_key(&format!("{}!!!", j)) {
                push(&mut v, "C16", "recorded-despite-error", j.clone());
            }
            if !res.final_states.get(j).map(|s| crate::driver::is_own_failure(s)).unwrap_or(false) {
                push(&mut v, "C16", "not-treated-as-failed", format!("{} {:?}", j, res.final_states.get(j)));
            }
        }
        // its not-yet-started dependants end upstream-failed (same exemption as C07: Ephemerals
        // nobody can need simply stay skipped)
        if !res.eco.is_empty() && !res.aborted {
            let mut blocked: BTreeSet<usize> = BTreeSet::new();
            for &s2 in act.iter() {
                if res.executed.contains(&post.id(s2)) {
                    continue;
                }
                for (u, _) in post.deps_of(s2) {
                    if blocked.contains(&u) || res.eco.contains(&post.id(u)) {
                        blocked.insert(s2);
                    }
                }
            }
            for b in blocked.iter() {
                let id = post.id(*b);
                let stt = res.final_states.get(&id).cloned().unwrap_or_default();
                if !res.upstream_failed.contains(&id) && !useless.contains(b) {
                    push(&mut v, "C16", "dependant-of-failed-ephemeral-not-upstream-failed", format!("{} ended {}", id, stt));
                }
            }
        }
    }

    // ---------------- C07 (final)
    if !res.failed.is_empty() || !res.upstream_failed.is_empty() {
        let mut blocked: BTreeSet<usize> = BTreeSet::new();
        for &s2 in act.iter() {
            let id = post.id(s2);
            if res.executed.contains(&id) {
                continue;
            }
            for (u, _) in post.deps_of(s2) {
                if blocked.contains(&u) || res.failed.contains(&post.id(u)) {
                    blocked.insert(s2);
                }
            }
        }
        if !res.aborted {
            for b in blocked.iter() {
                let id = post.id(*b);
                let stt = res.final_states.get(&id).cloned().unwrap_or_default();
                if !res.upstream_failed.contains(&id) && !useless.contains(b) {
                    push(&mut v, "C07", "blocked-job-not-reported-upstream-failed", format!("{} ended {}", id, stt));
                }
            }
        }
        for uf in res.upstream_failed.iter() {
            if res.executed.contains(uf) {
                push(&mut v, "C07", "started-job-upstream-failed", uf.clone());
            }
            if let Some(s2) = ids.get(uf) {
                let has_cause = post.deps_of(*s2).iter().any(|x| {
                    let uid = post.id(x.0);
                    res.failed.contains(&uid) || res.upstream_failed.contains(&uid)
                });
                if !has_cause {
                    push(&mut v, "C07", "upstream-failed-without-cause", uf.clone());
                }
            }
        }
    }

    // ---------------- C18
    {
        let sup = |id: &str| post.superseded(id, &ids);
        let rerecorded = |id: &str| -> bool {
            ids.contains_key(id) && (res.succeeded.contains(id) || res.flipped.contains(id) || ph.validly_skipped.contains(id) || res.disp.get(id) == Some(&Disp::Skipped))
        };
        for (k, val) in h_in.iter() {
            if let Some((a, b)) = k.split_once("!!!") {
                if b.is_empty() {
                    if !ids.contains_key(a) {
                        if sup(a) {
                            if h_out.contains_key(k) {
                                push(&mut v, "C18", "input-list-of-superseded-job-kept", k.clone());
                            }
                        } else if h_out.get(k) != Some(val) {
                            push(&mut v, "C18", "input-list-of-absent-job-lost", format!("{} -> {:?}", k, h_out.get(k)));
                        }
                    }
                } else {
                    let (pa, pb) = (ids.contains_key(a), ids.contains_key(b));
                    if pa && pb {
                        if !post.has_dep(ids[b], ids[a]) && h_out.contains_key(k) {
                            push(&mut v, "C18", "record-of-removed-dependency-kept", k.clone());
                        }
                    } else if sup(b) {
                        // may
                    } else if pb && rerecorded(b) {
                        // may: `a!!!b` is b's account of what it last consumed from `a`; `a` has left the
                        // graph (or changed its name) and b has been recorded anew without it - the
                        // statement's "so that a job which is removed and later re-added is judged against
                        // what it last consumed" is about the records of the removed job itself
                    } else if h_out.get(k) != Some(val) {
                        let what = if sup(a) { "dependency-record-on-superseded-upstream-lost-before-consumer-rerecorded" } else { "dependency-record-with-absent-job-lost" };
                        push(&mut v, "C18", what, format!("{} (upstream present={} downstream present={}) -> {:?}", k, pa, pb, h_out.get(k)));
                    }
                }
            } else if !ids.contains_key(k) {
                if sup(k) {
                    if h_out.contains_key(k) {
                        push(&mut v, "C18", "own-record-of-superseded-job-kept", k.clone());
                    }
                } else if h_out.get(k) != Some(val) {
                    push(&mut v, "C18", "own-record-of-absent-job-lost", format!("{} -> {:?}", k, h_out.get(k)));
                }
            }
        }
        for k in h_out.keys() {
            if h_in.contains_key(k) {
                continue;
            }
            let ok = if let Some((a, b)) = k.split_once("!!!") {
                if b.is_empty() {
                    ids.contains_key(a)
                } else {
                    ids.contains_key(a) && ids.contains_key(b) && post.has_dep(ids[b], ids[a])
                }
            } else {
                ids.contains_key(k)
            };
            if !ok {
                push(&mut v, "C18", "invented-record", k.clone());
            }
        }
    }

    res.violations.extend(v);
    ph
}

/// history equality under the configured comparison (C09, C12)
pub fn history_equal(
    w: &World,
    a: &BTreeMap<String, String>,
    b: &BTreeMap<String, String>,
) -> Result<(), (String, String)> {
    let k1: BTreeSet<&String> = a.keys().collect();
    let k2: BTreeSet<&String> = b.keys().collect();
    if k1 != k2 {
        let d: Vec<&&String> = k1.symmetric_difference(&k2).collect();
        return Err(("keys-differ".into(), format!("{:?}", d)));
    }
    for k in k1 {
        let (x, y) = (&a[k], &b[k]);
        if x != y {
            let ok = if k.ends_with("!!!") {
                false
            } else if let Some((u, d)) = k.split_once("!!!") {
                !w.altered(u, d, x, y)
            } else {
                !w.altered(k, "!!!", x, y)
            };
            if !ok {
                let what = if k.ends_with("!!!") { "input-list-differs" } else { "record-differs" };
                return Err((what.into(), format!("{}: {} vs {}", k, x, y)));
            }
        }
    }
    Ok(())
}
