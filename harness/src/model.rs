//! Reference model: the up-to-date predicate of C03/C04 and the set of jobs a
//! failure-free evaluation has to execute. O(V+E), knows nothing about engine states.
use crate::scenario::*;
use crate::world::*;
use std::collections::{BTreeMap, BTreeSet};

/// Is job `s` up to date?  `w` is the world at the start of the evaluation (after
/// `evalno += 1` and `forget_superseded`), `h` the input history, `cur(u)` the current
/// output record of upstream slot `u` (None: it has none).
/// Existence of records is taken from `h`, values from the ledger.
pub fn utd(
    w: &World,
    h: &BTreeMap<String, String>,
    s: usize,
    cur: &dyn Fn(usize) -> Option<String>,
) -> Result<(), String> {
    let id = w.id(s);
    if !h.contains_key(&id) {
        return Err("no-own-record".into());
    }
    let il = w.input_list(s);
    match h.get(&format!("{}!!!", id)) {
        Some(x) if *x == il => {}
        Some(_) => return Err("input-names-differ".into()),
        None => return Err("no-input-list-record".into()),
    }
    let led = match w.ledger.get(&id) {
        Some(l) if l.has_success => l,
        _ => return Err("no-successful-execution".into()),
    };
    if led.failed_since {
        return Err("failed-attempt-since".into());
    }
    if led.input_list != il {
        return Err("input-names-differ-from-last-execution".into());
    }
    if w.kind(s) == Kind::Output && !w.outputs_present(s) {
        return Err("output-missing".into());
    }
    let suffix = format!("!!!{}", id);
    for (u, _) in w.deps_of(s) {
        let uid = w.id(u);
        let direct = h.contains_key(&format!("{}!!!{}", uid, id));
        let exists = direct || {
            let parts: BTreeSet<&str> = uid.split(":::").collect();
            h.keys().any(|k| {
                k.ends_with(&suffix)
                    && k.len() > suffix.len()
                    && k[..k.len() - suffix.len()]
                        .split(":::")
                        .any(|p| parts.contains(p))
            })
        };
        if !exists {
            return Err("no-dependency-record".into());
        }
        match (led.consumed.get(&u), cur(u)) {
            (Some(e), Some(c)) => {
                if w.altered(&uid, &id, e, &c) {
                    return Err("consumed-value-altered".into());
                }
            }
            (None, _) => return Err("never-consumed-this-upstream".into()),
            (_, None) => return Err("upstream-has-no-current-output".into()),
        }
    }
    Ok(())
}

#[derive(Clone, Debug, Default)]
pub struct ModelOut {
    /// ids the failure-free evaluation executes
    pub exec: BTreeSet<String>,
    pub utd: BTreeSet<String>,
    pub why: BTreeMap<String, String>,
    pub useless: BTreeSet<String>,
    /// utd Ephemerals executed for a consumer
    pub on_demand: BTreeSet<String>,
    /// an upstream re-executed and its output judged unaltered for a consumer that stays skipped
    pub shielded: usize,
}

/// `w0`: world before the evaluation (as handed to `run_eval`).
pub fn model_exec(w0: &World) -> ModelOut {
    let mut w = w0.clone();
    w.evalno += 1;
    w.forget_superseded();
    let act = w.active();
    let h = w.history.clone();
    let useless = w.useless();
    let mut out = ModelOut::default();
    let mut cur: BTreeMap<usize, Option<String>> = BTreeMap::new();
    let mut content: BTreeMap<String, u64> = BTreeMap::new();
    let mut exec: BTreeSet<usize> = BTreeSet::new();
    let mut utd_set: BTreeSet<usize> = BTreeSet::new();
    for &s in act.iter() {
        let id = w.id(s);
        if useless.contains(&s) {
            cur.insert(s, None);
            out.useless.insert(id);
            continue;
        }
        let status = {
            let curf = |u: usize| cur.get(&u).cloned().flatten();
            utd(&w, &h, s, &curf)
        };
        let ok = status.is_ok();
        if let Err(e) = status {
            out.why.insert(id.clone(), e);
        }
        let run = w.kind(s) == Kind::Always || !ok;
        if ok {
            utd_set.insert(s);
        }
        let compute_it = run || w.kind(s) != Kind::Output;
        let mut contents = BTreeMap::new();
        for p in parts_of(w.parts(s)) {
            let n = part_name(s, p);
            let v = if compute_it {
                w.compute(s, p, &content)
            } else {
                *w.disk.get(&n).unwrap_or(&MISSING_INPUT)
            };
            contents.insert(n.clone(), v);
            content.insert(n, v);
        }
        if run {
            exec.insert(s);
            cur.insert(s, Some(w.record(s, &contents)));
        } else {
            cur.insert(s, w.ledger.get(&id).map(|l| l.produced.clone()));
        }
    }
    for &s in act.iter().rev() {
        if w.kind(s) == Kind::Ephemeral && utd_set.contains(&s) && !exec.contains(&s) {
            if w.consumers_of(s).iter().any(|d| exec.contains(d)) {
                exec.insert(s);
                out.on_demand.insert(w.id(s));
            }
        }
    }
    for &s in act.iter() {
        if !exec.contains(&s) && utd_set.contains(&s) {
            for (u, _) in w.deps_of(s) {
                if exec.contains(&u) && !out.on_demand.contains(&w.id(u)) {
                    out.shielded += 1;
                }
            }
        }
    }
    out.exec = exec.into_iter().map(|s| w.id(s)).collect();
    out.utd = utd_set.into_iter().map(|s| w.id(s)).collect();
    out
}
