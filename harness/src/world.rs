//! The simulated project: jobs with deterministic behaviour, a disk, records,
//! the configured comparison, the ledger (ground truth of what was consumed).
use crate::scenario::*;
use std::collections::{BTreeMap, BTreeSet};

pub const GARBAGE: u64 = 0xdead_0000_0000;
pub const MISSING_INPUT: u64 = 0xbad0_0000_0000;
pub const PART_SUFFIX: [&str; 3] = ["", "x", "y"];
/// part index of the output name that the two slots of a pair (2k, 2k+1) share: `j<2k>s` is
/// produced by whichever of the two currently claims it (the even slot wins while both do), so a
/// multi-output job can lose an output that another present job now produces
pub const SHARED: u8 = 3;

/// Output names. The name of an odd slot extends the name of the slot before it (`j0`, `j0b`,
/// `j2`, `j2b`, ...): one job's name being a substring of another's must not confuse anything.
pub fn part_name(slot: usize, p: u8) -> String {
    if p == SHARED {
        return format!("j{}s", slot & !1);
    }
    if slot % 2 == 1 {
        format!("j{}b{}", slot - 1, PART_SUFFIX[p as usize])
    } else if slot == 6 {
        // an id may begin with '!' (only "!!!" inside an id is forbidden): `x!!!!j6` must still be
        // read as the record of the dependency x -> !j6
        format!("!j{}{}", slot, PART_SUFFIX[p as usize])
    } else {
        format!("j{}{}", slot, PART_SUFFIX[p as usize])
    }
}

/// `hash@stamp|hash@stamp` -> `hash|hash`
fn strip_stamps(r: &str) -> String {
    r.split('|').map(|f| f.split('@').next().unwrap()).collect::<Vec<_>>().join("|")
}

pub fn parts_of(mask: u8) -> impl Iterator<Item = u8> {
    (0u8..4).filter(move |p| mask & (1 << p) != 0)
}

#[derive(Clone, Debug)]
pub struct SlotState {
    pub active: bool,
    pub parts: u8,
    pub salt: u32,
    /// upstream slot -> consumed mask (as declared; see `World::deps_of`)
    pub deps: BTreeMap<usize, u8>,
}

/// what the harness knows a job consumed / produced at its last successful execution
#[derive(Clone, Debug, Default, PartialEq, Eq)]
pub struct Ledger {
    pub input_list: String,
    /// upstream slot -> whole record of the upstream consumed then
    pub consumed: BTreeMap<usize, String>,
    pub produced: String,
    /// a failed / aborted-while-running attempt happened after the last success
    pub failed_since: bool,
    pub has_success: bool,
}

#[derive(Clone, Debug)]
pub struct World {
    pub cfg: Config,
    pub defs: Vec<SlotDef>,
    pub st: Vec<SlotState>,
    /// output name -> content
    pub disk: BTreeMap<String, u64>,
    /// output name -> (job id that wrote it last, evaluation number, was a proper success)
    pub disk_writer: BTreeMap<String, (String, u32, bool)>,
    pub history: BTreeMap<String, String>,
    pub ledger: BTreeMap<String, Ledger>,
    pub evalno: u32,
    /// a flaky ephemeral has been executed: behaviours are no longer a function of
    /// declared inputs, the semantic oracles do not apply any more
    pub tainted: bool,
    /// output files deleted by the edits of the current step: they vanish *after* the graph has been
    /// declared (between `add_node` and `event_startup`), so a presence question asked while the
    /// graph is being declared still finds them
    pub deleted_in_step: BTreeSet<String>,
    /// slots whose id lists the outputs in reverse order (`b:::a` instead of `a:::b`): another name for
    /// a job with the same outputs
    pub reversed: BTreeSet<usize>,
    /// caches, rebuilt by `refresh` whenever the graph changes
    pub idmap: BTreeMap<String, usize>,
    pub cons: Vec<Vec<usize>>,
    pub owner: BTreeMap<String, String>,
}

fn mix(mut h: u64, v: u64) -> u64 {
    h ^= v
        .wrapping_add(0x9e3779b97f4a7c15)
        .wrapping_add(h << 6)
        .wrapping_add(h >> 2);
    h = h.wrapping_mul(0xff51afd7ed558ccd);
    h ^ (h >> 33)
}

pub fn hstr(s: &str) -> u64 {
    let mut h = 1469598103934665603u64;
    for b in s.bytes() {
        h = mix(h, b as u64);
    }
    h
}

pub fn hash_u64s(it: impl IntoIterator<Item = u64>) -> u64 {
    let mut h = 0x1234_5678_9abc_def0u64;
    for v in it {
        h = mix(h, v);
    }
    h
}

/// parse `name=hash[@stamp]|name=hash[@stamp]` -> name -> hash (stamp dropped)
pub fn parse_record(r: &str) -> BTreeMap<&str, &str> {
    let mut m = BTreeMap::new();
    for f in r.split('|') {
        if let Some((n, v)) = f.split_once('=') {
            let v = v.split('@').next().unwrap();
            m.insert(n, v);
        }
    }
    m
}

impl World {
    pub fn new(sc: &Scenario) -> World {
        let n = sc.n();
        let mut st = Vec::new();
        for i in 0..n {
            let init = &sc.init[i];
            let mut deps = BTreeMap::new();
            for (u, m) in init.deps.iter() {
                if *u < i && *m & 15 != 0 {
                    deps.insert(*u, *m & 15);
                }
            }
            let parts = if sc.slots[i].kind == Kind::Always {
                1
            } else if init.parts & 15 == 0 {
                1
            } else {
                init.parts & 15
            };
            st.push(SlotState {
                active: init.active,
                parts,
                salt: 1,
                deps,
            });
        }
        let mut w = World {
            cfg: sc.cfg,
            defs: sc.slots.clone(),
            st,
            disk: BTreeMap::new(),
            disk_writer: BTreeMap::new(),
            history: BTreeMap::new(),
            ledger: BTreeMap::new(),
            evalno: 0,
            tainted: false,
            deleted_in_step: BTreeSet::new(),
            reversed: BTreeSet::new(),
            idmap: BTreeMap::new(),
            cons: vec![],
            owner: BTreeMap::new(),
        };
        w.refresh();
        w
    }

    /// rebuild the caches (id -> slot, consumers, output name -> present job id)
    pub fn refresh(&mut self) {
        self.idmap = self.active().into_iter().map(|s| (self.id(s), s)).collect();
        let mut cons = vec![vec![]; self.n()];
        for d in self.active() {
            for (u, _) in self.st[d].deps.iter() {
                if self.st[*u].active {
                    cons[*u].push(d);
                }
            }
        }
        self.cons = cons;
        self.owner = self
            .idmap
            .keys()
            .flat_map(|id| id.split(":::").map(move |p| (p.to_string(), id.clone())))
            .collect();
    }

    pub fn n(&self) -> usize {
        self.st.len()
    }

    pub fn kind(&self, s: usize) -> Kind {
        self.defs[s].kind
    }

    /// the outputs job `s` currently produces: what it claims, minus the shared output of its pair
    /// while the (active) even partner claims that too; never empty
    pub fn parts(&self, s: usize) -> u8 {
        let mut p = self.st[s].parts;
        if p & (1 << SHARED) != 0 && s % 2 == 1 && self.st[s - 1].active && self.st[s - 1].parts & (1 << SHARED) != 0 {
            p &= !(1 << SHARED);
        }
        if p == 0 {
            1
        } else {
            p
        }
    }

    pub fn id(&self, s: usize) -> String {
        let mut v: Vec<String> = parts_of(self.parts(s)).map(|p| part_name(s, p)).collect();
        v.sort();
        if self.reversed.contains(&s) {
            v.reverse();
        }
        v.join(":::")
    }

    pub fn active(&self) -> Vec<usize> {
        (0..self.n()).filter(|i| self.st[*i].active).collect()
    }

    pub fn id_map(&self) -> BTreeMap<String, usize> {
        self.idmap.clone()
    }

    /// current direct upstreams of `s`: (upstream slot, consumed parts mask)
    pub fn deps_of(&self, s: usize) -> Vec<(usize, u8)> {
        let mut out = vec![];
        for (u, c) in self.st[s].deps.iter() {
            if self.st[*u].active {
                let mut cons = c & self.parts(*u);
                if cons == 0 || self.cfg.names == Names::JobIds {
                    cons = self.parts(*u);
                }
                out.push((*u, cons));
            }
        }
        out
    }

    pub fn has_dep(&self, down: usize, up: usize) -> bool {
        self.st[down].active
            && self.st[up].active
            && self.st[down].deps.contains_key(&up)
    }

    pub fn consumers_of(&self, s: usize) -> Vec<usize> {
        self.cons[s].clone()
    }

    /// (upstream slot, output name, ignored)
    pub fn consumed_names(&self, s: usize) -> Vec<(usize, String, bool)> {
        let mut v = vec![];
        for (u, cons) in self.deps_of(s) {
            let ign = self.defs[s].ign.get(u).cloned().unwrap_or(0);
            for p in parts_of(cons) {
                v.push((u, part_name(u, p), ign & (1 << p) != 0));
            }
        }
        v.sort();
        v
    }

    pub fn input_list(&self, s: usize) -> String {
        match self.cfg.names {
            Names::JobIds => {
                let mut v: Vec<String> = self.deps_of(s).iter().map(|(u, _)| self.id(*u)).collect();
                v.sort();
                v.join("\n")
            }
            Names::Outputs => {
                let mut v: Vec<String> =
                    self.consumed_names(s).into_iter().map(|x| x.1).collect();
                v.sort();
                v.join("\n")
            }
        }
    }

    /// the behaviour of job `s` for its output `p`, given the contents of its inputs
    pub fn compute(&self, s: usize, p: u8, inputs: &BTreeMap<String, u64>) -> u64 {
        let mut h = mix(hstr(&part_name(s, p)), self.st[s].salt as u64);
        if p == SHARED {
            // the two possible producers of a shared output write different things
            h = mix(h, s as u64);
        }
        for (_u, n, ign) in self.consumed_names(s) {
            if !ign {
                h = mix(h, hstr(&n));
                h = mix(h, *inputs.get(&n).unwrap_or(&MISSING_INPUT));
            }
        }
        let mut v = if self.defs[s].coarse { h % 2 } else { h % 0xffff_ffff };
        if self.defs[s].flaky && self.kind(s) == Kind::Ephemeral {
            v = v.wrapping_add(1000 * self.evalno as u64);
        }
        v
    }

    /// contents of every output of the current graph built from scratch
    pub fn clean_build(&self) -> BTreeMap<String, u64> {
        let mut c = BTreeMap::new();
        for s in self.active() {
            for p in parts_of(self.parts(s)) {
                let v = self.compute(s, p, &c);
                c.insert(part_name(s, p), v);
            }
        }
        c
    }

    pub fn record(&self, s: usize, contents: &BTreeMap<String, u64>) -> String {
        let mut names: Vec<String> = parts_of(self.parts(s)).map(|p| part_name(s, p)).collect();
        names.sort();
        names
            .iter()
            .map(|n| {
                if self.cfg.anon {
                    if self.cfg.stamps {
                        format!("{:x}@{}", contents[n], self.evalno)
                    } else {
                        format!("{:x}", contents[n])
                    }
                } else if self.cfg.stamps {
                    format!("{}={:x}@{}", n, contents[n], self.evalno)
                } else {
                    format!("{}={:x}", n, contents[n])
                }
            })
            .collect::<Vec<_>>()
            .join("|")
    }

    pub fn outputs_present(&self, s: usize) -> bool {
        parts_of(self.parts(s)).all(|p| self.disk.contains_key(&part_name(s, p)))
    }

    /// the configured comparison (an equivalence on records for fixed (u, d),
    /// textual equality => unaltered, like StrategyForPython)
    pub fn altered(&self, u: &str, d: &str, last: &str, cur: &str) -> bool {
        if last == cur {
            return false;
        }
        if self.cfg.anon {
            // whole record, outputs not named
            return if self.cfg.stamps { strip_stamps(last) != strip_stamps(cur) } else { true };
        }
        let l = parse_record(last);
        let c = parse_record(cur);
        match self.cfg.scope {
            Scope::Whole => {
                if self.cfg.stamps {
                    l != c
                } else {
                    true
                }
            }
            Scope::Consumed => {
                if d == "!!!" {
                    return l != c;
                }
                let ds = self.idmap.get(d).cloned();
                match ds {
                    None => l != c,
                    Some(ds) => {
                        let mut any = false;
                        for (us, n, _) in self.consumed_names(ds) {
                            if self.id(us) == u {
                                any = true;
                                if l.get(n.as_str()) != c.get(n.as_str())
                                    || l.get(n.as_str()).is_none()
                                {
                                    return true;
                                }
                            }
                        }
                        if !any {
                            // u is not a current upstream of d (e.g. the engine asks under an old id)
                            return l != c;
                        }
                        false
                    }
                }
            }
        }
    }

    /// Ephemerals on which no non-Ephemeral job depends through Ephemerals only
    pub fn useless(&self) -> BTreeSet<usize> {
        let mut useless = BTreeSet::new();
        for s in self.active().into_iter().rev() {
            if self.kind(s) != Kind::Ephemeral {
                continue;
            }
            let mut all_e = true;
            for d in self.consumers_of(s) {
                if !(self.kind(d) == Kind::Ephemeral && useless.contains(&d)) {
                    all_e = false;
                }
            }
            if all_e {
                useless.insert(s);
            }
        }
        useless
    }

    /// ids (of jobs known to history / ledger) that are absent from the current graph
    /// while one of their output names is produced by a present job of a different id
    pub fn superseded(&self, id: &str, _ids: &BTreeMap<String, usize>) -> bool {
        if self.idmap.contains_key(id) {
            return false;
        }
        id.split(":::")
            .any(|p| self.owner.get(p).map(|o| o != id).unwrap_or(false))
    }

    pub fn apply_edit(&mut self, e: &Edit) {
        let n = self.n();
        match e {
            Edit::ToggleJob(s) => {
                if *s < n {
                    self.st[*s].active = !self.st[*s].active;
                }
            }
            Edit::ToggleDep { down, up, mask } => {
                if *down < n && *up < *down {
                    if self.st[*down].deps.remove(up).is_none() {
                        let m = if mask & 15 == 0 { 1 } else { mask & 15 };
                        self.st[*down].deps.insert(*up, m);
                    }
                }
            }
            Edit::TogglePart(s, p) => {
                if *s < n && *p < 4 && self.kind(*s) != Kind::Always {
                    let np = self.st[*s].parts ^ (1 << p);
                    if np != 0 {
                        self.st[*s].parts = np;
                    }
                }
            }
            Edit::ToggleOrder(s) => {
                if *s < n && !self.reversed.remove(s) {
                    self.reversed.insert(*s);
                }
            }
            Edit::Bump(s) => {
                if *s < n && self.kind(*s) == Kind::Always {
                    self.st[*s].salt += 1;
                }
            }
            Edit::Delete(s, m) => {
                if *s < n {
                    for p in parts_of(*m & 15) {
                        let pn = part_name(*s, p);
                        if self.disk.remove(&pn).is_some() {
                            self.deleted_in_step.insert(pn.clone());
                        }
                        self.disk_writer.remove(&pn);
                    }
                }
            }
        }
        match e {
            Edit::ToggleJob(_) | Edit::ToggleDep { .. } | Edit::TogglePart(..) | Edit::ToggleOrder(_) => self.refresh(),
            _ => {}
        }
    }

    /// forget the ledger of ids superseded by the current graph (C18: their records
    /// can never vouch again)
    pub fn forget_superseded(&mut self) {
        let ids = BTreeMap::new();
        let gone: Vec<String> = self
            .ledger
            .keys()
            .filter(|k| self.superseded(k, &ids))
            .cloned()
            .collect();
        for k in gone {
            self.ledger.remove(&k);
        }
    }
}
