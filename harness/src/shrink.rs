//! Scenario-level delta debugging: drops steps, edits, jobs, dependencies, faults and
//! canonicalises schedules while the *same violation signature* keeps showing.
use crate::scenario::*;

fn remove_slot(sc: &Scenario, i: usize) -> Scenario {
    let mut s = sc.clone();
    s.slots.remove(i);
    s.init.remove(i);
    for d in s.slots.iter_mut() {
        if i < d.ign.len() {
            d.ign.remove(i);
        }
    }
    for (k, d) in s.slots.iter_mut().enumerate() {
        d.ign.truncate(k);
    }
    for ini in s.init.iter_mut() {
        ini.deps.retain(|(u, _)| *u != i);
        for d in ini.deps.iter_mut() {
            if d.0 > i {
                d.0 -= 1;
            }
        }
    }
    let fix = |x: usize| -> Option<usize> {
        if x == i {
            None
        } else if x > i {
            Some(x - 1)
        } else {
            Some(x)
        }
    };
    for st in s.steps.iter_mut() {
        let mut ne = vec![];
        for e in st.edits.iter() {
            let m = match e {
                Edit::ToggleJob(a) => fix(*a).map(Edit::ToggleJob),
                Edit::ToggleDep { down, up, mask } => match (fix(*down), fix(*up)) {
                    (Some(d), Some(u)) => Some(Edit::ToggleDep { down: d, up: u, mask: *mask }),
                    _ => None,
                },
                Edit::TogglePart(a, p) => fix(*a).map(|a| Edit::TogglePart(a, *p)),
                Edit::Bump(a) => fix(*a).map(Edit::Bump),
                Edit::ToggleOrder(a) => fix(*a).map(Edit::ToggleOrder),
                Edit::Delete(a, m) => fix(*a).map(|a| Edit::Delete(a, *m)),
            };
            if let Some(m) = m {
                ne.push(m);
            }
        }
        st.edits = ne;
        let f = st.plan.fail;
        let low = f & ((1u32 << i) - 1);
        let high = (f >> (i + 1)) << i;
        st.plan.fail = low | high;
    }
    s
}

fn simplify_sched(s: &Sched, level: u8) -> Sched {
    let mut n = s.clone();
    match level {
        0 => {
            n.choices.clear();
            n.max_running = 1;
            n.ack_mode = 0;
            n.decl.clear();
        }
        1 => n.choices.clear(),
        2 => n.max_running = 1,
        3 => n.ack_mode = 0,
        4 => n.decl.clear(),
        _ => {
            while n.choices.last() == Some(&0) {
                n.choices.pop();
            }
        }
    }
    n
}

/// all one-step simplifications of `sc`, most aggressive first
fn candidates(sc: &Scenario) -> Vec<Scenario> {
    let mut out = vec![];
    // drop trailing / single steps
    for k in (0..sc.steps.len()).rev() {
        if sc.steps.len() > 1 {
            let mut s = sc.clone();
            s.steps.remove(k);
            out.push(s);
        }
    }
    // merge a step's edits into the next one and drop its evaluation
    for k in 0..sc.steps.len().saturating_sub(1) {
        let mut s = sc.clone();
        let st = s.steps.remove(k);
        let mut e = st.edits;
        e.extend(s.steps[k].edits.clone());
        s.steps[k].edits = e;
        out.push(s);
    }
    // remove slots
    if sc.slots.len() > 1 {
        for i in (0..sc.slots.len()).rev() {
            out.push(remove_slot(sc, i));
        }
    }
    // deactivate slots initially
    for i in 0..sc.init.len() {
        if sc.init[i].active {
            let mut s = sc.clone();
            s.init[i].active = false;
            out.push(s);
        }
    }
    for (k, st) in sc.steps.iter().enumerate() {
        if !st.edits.is_empty() {
            let mut s = sc.clone();
            s.steps[k].edits.clear();
            out.push(s);
        }
        for e in 0..st.edits.len() {
            let mut s = sc.clone();
            s.steps[k].edits.remove(e);
            out.push(s);
        }
        if st.plan.fail != 0 {
            let mut s = sc.clone();
            s.steps[k].plan.fail = 0;
            out.push(s);
            for b in 0..32 {
                if st.plan.fail & (1 << b) != 0 {
                    let mut s = sc.clone();
                    s.steps[k].plan.fail &= !(1 << b);
                    out.push(s);
                }
            }
        }
        if st.plan.abort.is_some() {
            let mut s = sc.clone();
            s.steps[k].plan.abort = None;
            out.push(s);
            if let Some((a, style)) = st.plan.abort {
                if a > 0 {
                    let mut s = sc.clone();
                    s.steps[k].plan.abort = Some((a - 1, style));
                    out.push(s);
                }
                if style {
                    let mut s = sc.clone();
                    s.steps[k].plan.abort = Some((a, false));
                    out.push(s);
                }
            }
        }
        if st.plan.fail_mode != 0 {
            let mut s = sc.clone();
            s.steps[k].plan.fail_mode = 0;
            out.push(s);
        }
        for level in 0..6 {
            let n = simplify_sched(&st.plan.sched, level);
            if n != st.plan.sched {
                let mut s = sc.clone();
                s.steps[k].plan.sched = n;
                out.push(s);
            }
        }
        for a in 0..st.plan.alts.len() {
            for level in 0..6 {
                let n = simplify_sched(&st.plan.alts[a], level);
                if n != st.plan.alts[a] {
                    let mut s = sc.clone();
                    s.steps[k].plan.alts[a] = n;
                    out.push(s);
                }
            }
        }
        // zero single schedule choices
        for c in 0..st.plan.sched.choices.len() {
            if st.plan.sched.choices[c] != 0 {
                let mut s = sc.clone();
                s.steps[k].plan.sched.choices[c] = 0;
                out.push(s);
            }
        }
    }
    for i in 0..sc.init.len() {
        for d in 0..sc.init[i].deps.len() {
            let mut s = sc.clone();
            s.init[i].deps.remove(d);
            out.push(s);
        }
        if sc.init[i].parts != 1 {
            let mut s = sc.clone();
            s.init[i].parts = 1;
            out.push(s);
        }
        if sc.slots[i].coarse {
            let mut s = sc.clone();
            s.slots[i].coarse = false;
            out.push(s);
        }
        if sc.slots[i].flaky {
            let mut s = sc.clone();
            s.slots[i].flaky = false;
            out.push(s);
        }
        if sc.slots[i].ign.iter().any(|x| *x != 0) {
            let mut s = sc.clone();
            for x in s.slots[i].ign.iter_mut() {
                *x = 0;
            }
            out.push(s);
        }
        for d in 0..sc.init[i].deps.len() {
            if sc.init[i].deps[d].1 != 1 {
                let mut s = sc.clone();
                s.init[i].deps[d].1 = 1;
                out.push(s);
            }
        }
    }
    if sc.cfg.stamps {
        let mut s = sc.clone();
        s.cfg.stamps = false;
        out.push(s);
    }
    if sc.cfg.scope != Scope::Whole {
        let mut s = sc.clone();
        s.cfg.scope = Scope::Whole;
        out.push(s);
    }
    if sc.cfg.anon {
        let mut s = sc.clone();
        s.cfg.anon = false;
        out.push(s);
    }
    if sc.cfg.names != Names::JobIds {
        let mut s = sc.clone();
        s.cfg.names = Names::JobIds;
        out.push(s);
    }
    out
}

pub fn shrink(sc: &Scenario, still_fails: &mut dyn FnMut(&Scenario) -> bool, budget: usize) -> (Scenario, usize) {
    let mut cur = sc.clone();
    let mut tried = 0usize;
    loop {
        let mut progress = false;
        for c in candidates(&cur) {
            if tried >= budget {
                return (cur, tried);
            }
            tried += 1;
            if still_fails(&c) {
                cur = c;
                progress = true;
                break;
            }
        }
        if !progress {
            return (cur, tried);
        }
    }
}
