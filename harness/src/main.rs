use ppgcheck::runner::*;
use std::time::Instant;

fn arg_val(args: &[String], name: &str) -> Option<String> {
    args.iter().position(|a| a == name).and_then(|i| args.get(i + 1).cloned())
}

fn main() {
    let args: Vec<String> = std::env::args().collect();
    if args.len() < 2 {
        eprintln!("usage: ppgcheck <C01..C20> [--tier quick|thorough] [--seed N] [--cases N] [--threads N] [--replay FILE]");
        std::process::exit(2);
    }
    let prop = args[1].clone();
    let tier = arg_val(&args, "--tier").or_else(|| std::env::var("VERIF_TIER").ok()).unwrap_or_else(|| "quick".into());
    let tier = if tier == "thorough" { "thorough" } else { "quick" };
    let seed: u64 = arg_val(&args, "--seed")
        .or_else(|| std::env::var("VERIF_SEED").ok())
        .and_then(|s| s.trim().parse::<i64>().ok())
        .map(|x| x as u64)
        .unwrap_or(20260927);
    let threads: usize = arg_val(&args, "--threads").and_then(|s| s.parse().ok()).unwrap_or_else(|| std::thread::available_parallelism().map(|n| n.get()).unwrap_or(8).min(16));
    ppgcheck::driver::install_panic_hook();
    let t0 = Instant::now();

    if let Some(path) = arg_val(&args, "--replay") {
        let rp = match load_replay(std::path::Path::new(&path)) {
            Ok(r) => r,
            Err(e) => {
                eprintln!("cannot load replay: {}", e);
                std::process::exit(2);
            }
        };
        let mut agg = Agg::default();
        match run_replay(&prop, &rp, &mut agg) {
            Some((step, v)) => {
                println!("replay shows {} at evaluation {}: {}", v.sig(), step, v.detail);
                println!("VIOLATION property={} replay={}", prop, path);
                std::process::exit(1);
            }
            None => {
                println!("replay {} shows no violation of {} (32 repetitions)", path, prop);
                std::process::exit(0);
            }
        }
    }

    if prop == "c19-child" {
        let c: ppgcheck::big::BigCase = serde_json::from_str(&args[2]).expect("bad case");
        let r = ppgcheck::big::run_big(&c);
        println!("{}", serde_json::to_string(&r).unwrap());
        return;
    }
    if prop == "C19" {
        c19_main(&args, tier, seed, threads);
        return;
    }
    if prop == "show" {
        let rp = load_replay(std::path::Path::new(&args[2])).expect("cannot load");
        println!("{} :: {}", rp.signature, rp.detail);
        println!("{}", ppgcheck::chain::trace_case(&rp.scenario));
        return;
    }
    if prop == "survey" {
        let of = arg_val(&args, "--of").unwrap_or_else(|| "C06".into());
        let spec = spec_for(&of).expect("unknown property");
        let cases = arg_val(&args, "--cases").and_then(|s| s.parse().ok()).unwrap_or(20000);
        let mode = if args.iter().any(|a| a == "--all") { ppgcheck::chain::Mode::all() } else { ppgcheck::chain::Mode::for_prop(spec.prop) };
        let h = survey(&spec, cases, seed, threads, &mode);
        for (k, (n, ex)) in h.iter() {
            let exs: String = ex.chars().take(arg_val(&args, "--width").and_then(|s| s.parse().ok()).unwrap_or(300)).collect();
            println!("{:7} {}\n          {}", n, k, exs);
        }
        println!("{:.1}s", t0.elapsed().as_secs_f64());
        return;
    }
    let spec = match spec_for(&prop) {
        Some(s) => s,
        None => {
            eprintln!("unknown property {}", prop);
            std::process::exit(2);
        }
    };
    let known = KnownFindings::load();
    let mut agg = Agg::default();
    let mut violation: Option<(String, String, String)> = None; // (path, sig, detail)

    // ---- replay tier: saved (shrunk) scenarios of earlier findings / seeded changes
    let mut replayed = 0usize;
    for path in replay_files(&prop) {
        let rp = match load_replay(&path) {
            Ok(r) => r,
            Err(e) => {
                eprintln!("bad replay file: {}", e);
                std::process::exit(2);
            }
        };
        replayed += 1;
        if let Some((step, v)) = run_replay(&prop, &rp, &mut agg) {
            println!("replay {} shows {} at evaluation {}: {}", path.display(), v.sig(), step, v.detail);
            violation = Some((path.display().to_string(), v.sig(), v.detail));
            break;
        }
    }

    // ---- generated search
    let mut cases = if tier == "thorough" { spec.thorough_cases } else { spec.quick_cases };
    if let Some(c) = arg_val(&args, "--cases").and_then(|s| s.parse().ok()) {
        cases = c;
    }
    if violation.is_none() {
        let res = run_generated(&spec, cases, seed, threads, tier == "thorough");
        let replay_agg = std::mem::take(&mut agg);
        agg = res.agg;
        agg.cases += replay_agg.cases;
        agg.evals += replay_agg.evals;
        agg.main_evals += replay_agg.main_evals;
        agg.nontrivial.extend(replay_agg.nontrivial);
        for (k, v) in replay_agg.known_hits {
            *agg.known_hits.entry(k).or_insert(0) += v;
        }
        if let Some(rp) = res.violation {
            let path = write_replay(&rp);
            println!("violation {} at evaluation {}: {}", rp.signature, rp.step, rp.detail);
            violation = Some((path, rp.signature.clone(), rp.detail.clone()));
        }
    }

    let wall = t0.elapsed().as_secs_f64();
    for (k, n) in agg.known_hits.iter() {
        let f = &known.findings[*k];
        println!("KNOWN-FINDING: property={} {} (matched {} times)", f.property, f.what, n);
    }
    let mut coverage = serde_json::json!({
        "evaluations": agg.evals,
        "scenarios_generated": agg.cases,
        "main_chain_evaluations": agg.main_evals,
        "distinct_nontrivial": agg.nontrivial.len(),
        "nontrivial_total": agg.nontrivial_total,
        "rule": spec.rule,
        "samples": agg.samples,
        "classification": agg.counters,
        "replay_files_run": replayed,
        "known_finding_hits": agg.known_hits.iter().map(|(k, n)| (known.findings[*k].signature.clone(), *n)).collect::<std::collections::BTreeMap<_, _>>(),
        "violations_of_other_properties_seen": agg.foreign,
        "threads": threads,
        "exhaustive": false,
    });
    if agg.samples.is_empty() {
        coverage["samples"] = serde_json::json!(["(no non-trivial case in this run)"]);
    }
    let ev = serde_json::json!({
        "property_id": prop,
        "tier": tier,
        "seed": seed as i64,
        "level": spec.level,
        "coverage": coverage,
        "assumptions": spec.assumptions,
        "wall_s": wall,
        "violations": if violation.is_some() { 1 } else { 0 },
    });
    let _ = std::fs::create_dir_all(format!("{}/evidence", VERIF_DIR));
    std::fs::write(format!("{}/evidence/{}.json", VERIF_DIR, prop), serde_json::to_string_pretty(&ev).unwrap()).expect("cannot write evidence");
    println!(
        "{} {}: {} scenarios, {} evaluations, {} distinct non-trivial, {:.1}s",
        prop, tier, agg.cases, agg.evals, agg.nontrivial.len(), wall
    );
    if let Some((path, _sig, _d)) = violation {
        println!("VIOLATION property={} replay={}", prop, path);
        std::process::exit(1);
    }
}

fn c19_main(args: &[String], tier: &str, seed: u64, threads: usize) {
    use ppgcheck::big::*;
    use ppgcheck::bigrun::*;
    use std::time::Duration;
    let t0 = Instant::now();
    let thorough = tier == "thorough";
    let timeout = Duration::from_secs(if thorough { 900 } else { 240 });
    if let Some(path) = arg_val(args, "--replay") {
        let rp = load_big_replay(std::path::Path::new(&path)).unwrap_or_else(|e| {
            eprintln!("{}", e);
            std::process::exit(2)
        });
        let run = run_c19(0, 100, seed, 1, timeout, vec![rp.big_case.clone()]);
        match run.violation {
            Some(v) => {
                println!("replay shows {}: {}", v.signature, v.detail);
                println!("VIOLATION property=C19 replay={}", path);
                std::process::exit(1);
            }
            None => {
                if run.timeouts > 0 {
                    println!("replay timed out (inconclusive)");
                    std::process::exit(2);
                }
                println!("replay {} shows no violation of C19", path);
                std::process::exit(0);
            }
        }
    }
    let mut cases: usize = if thorough { 1500 } else { 160 };
    if let Some(c) = arg_val(args, "--cases").and_then(|s| s.parse().ok()) {
        cases = c;
    }
    let max_n: usize = arg_val(args, "--max-n").and_then(|s| s.parse().ok()).unwrap_or(if thorough { 30000 } else { 3000 });
    let mut extra = vec![];
    let mut replayed = 0;
    for p in big_replay_files() {
        match load_big_replay(&p) {
            Ok(r) => {
                extra.push(r.big_case);
                replayed += 1;
            }
            Err(e) => {
                eprintln!("bad replay file {}", e);
                std::process::exit(2);
            }
        }
    }
    let run = run_c19(cases, max_n, seed, threads, timeout, extra);
    let wall = t0.elapsed().as_secs_f64();
    let known = KnownFindings::load();
    if run.known_hits > 0 {
        for f in known.findings.iter().filter(|f| f.property == "C19") {
            println!("KNOWN-FINDING: property=C19 {} ({} cases)", f.what, run.known_hits);
        }
    }
    let mut samples = run.samples.clone();
    if samples.is_empty() {
        samples.push(serde_json::json!("(no case above 60 jobs in this run)"));
    }
    let ev = serde_json::json!({
        "property_id": "C19",
        "tier": tier,
        "seed": seed as i64,
        "level": "exploration",
        "coverage": {
            "evaluations": run.evals,
            "cases_generated": run.cases,
            "distinct_nontrivial": run.distinct.len(),
            "rule": "case = (shape in chain/layered fan<=3/fan-in/fan-out/chain+side inputs) x (kind pattern, 8 families) x size (log-uniform, 61..max_n jobs) x cascade (first build, up-to-date re-run, invalidate first, invalidate last, fail root, abort mid-way + resume) x comparison/naming configuration, decoded from a proptest generated byte string, each evaluated in a child process; oracle = no error/crash and the same reference model / post-hoc oracles as for small graphs; non-trivial = more than 60 jobs (the largest size the repository's suite checks semantically); distinct by (shape, kind pattern, cascade, size bucket log2)",
            "samples": samples,
            "max_jobs": run.max_jobs,
            "max_depth": run.max_depth,
            "max_n_requested": max_n,
            "by_cascade": run.by_cascade,
            "by_shape": run.by_shape,
            "timeouts_inconclusive": run.timeouts,
            "known_finding_cases": run.known_hits,
            "replay_files_run": replayed,
            "exhaustive": false,
        },
        "assumptions": [
            "fan-in of a single job is capped at 6000 (the engine is quadratic there: time, not verdict)",
            "in layered graphs at least every 8th layer is not Ephemeral (unmemoised recursions in the engine are exponential in all-Ephemeral diamonds: time, not verdict)",
            "a case that exceeds its time budget is inconclusive, never a violation; a child process that dies (stack overflow) is a violation",
            "same simulated project, reference model and post-hoc oracles as for the small graphs (C01, C03, C04, C06, C07, C08, C09, C11, C13, C18 clauses), run without the O(n) per step monitors",
        ],
        "wall_s": wall,
        "violations": if run.violation.is_some() { 1 } else { 0 },
    });
    let _ = std::fs::create_dir_all(format!("{}/evidence", VERIF_DIR));
    std::fs::write(format!("{}/evidence/C19.json", VERIF_DIR), serde_json::to_string_pretty(&ev).unwrap()).expect("cannot write evidence");
    println!("C19 {}: {} cases, {} evaluations, max {} jobs / depth {}, {} timeouts, {:.1}s", tier, run.cases, run.evals, run.max_jobs, run.max_depth, run.timeouts, wall);
    if let Some(v) = run.violation {
        let path = write_big_replay(&v);
        println!("violation {}: {}\n  case: {}", v.signature, v.detail, describe_big(&v.big_case));
        println!("VIOLATION property=C19 replay={}", path);
        std::process::exit(1);
    }
    if run.cases > 0 && run.timeouts * 2 > run.cases {
        println!("more than half of the cases timed out: inconclusive");
        std::process::exit(2);
    }
}
