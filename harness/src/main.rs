use ppgcheck::runner::*;
use std::time::Instant;

fn arg_val(args: &[String], name: &str) -> Option<String> {
    args.iter().position(|a| a == name).and_then(|i| args.get(i + 1).cloned())
}

fn main() {
    let args: Vec<String> = std::env::args().collect();
    if args.len() < 2 {
        eprintln!("usage: ppgcheck <C01..C20> [--tier quick|thorough] [--seed N] [--cases N] [--threads N] [--replay FILE]");
        std::process::exit(2);
    }
    let prop = args[1].clone();
    let tier = arg_val(&args, "--tier").or_else(|| std::env::var("VERIF_TIER").ok()).unwrap_or_else(|| "quick".into());
    let tier = if tier == "thorough" { "thorough" } else { "quick" };
    let seed: u64 = arg_val(&args, "--seed")
        .or_else(|| std::env::var("VERIF_SEED").ok())
        .and_then(|s| s.trim().parse::<i64>().ok())
        .map(|x| x as u64)
        .unwrap_or(20260927);
    let threads: usize = arg_val(&args, "--threads").and_then(|s| s.parse().ok()).unwrap_or_else(|| std::thread::available_parallelism().map(|n| n.get()).unwrap_or(8).min(16));
    ppgcheck::driver::install_panic_hook();
    let t0 = Instant::now();

    if let Some(path) = arg_val(&args, "--replay") {
        let rp = match load_replay(std::path::Path::new(&path)) {
            Ok(r) => r,
            Err(e) => {
                eprintln!("cannot load replay: {}", e);
                std::process::exit(2);
            }
        };
        let mut agg = Agg::default();
        match run_replay(&prop, &rp, &mut agg) {
            Some((step, v)) => {
                println!("replay shows {} at evaluation {}: {}", v.sig(), step, v.detail);
                println!("VIOLATION property={} replay={}", prop, path);
                std::process::exit(1);
            }
            None => {
                println!("replay {} shows no violation of {} (32 repetitions)", path, prop);
                std::process::exit(0);
            }
        }
    }

    if prop == "show" {
        let rp = load_replay(std::path::Path::new(&args[2])).expect("cannot load");
        println!("{} :: {}", rp.signature, rp.detail);
        println!("{}", ppgcheck::chain::trace_case(&rp.scenario));
        return;
    }
    if prop == "survey" {
        let of = arg_val(&args, "--of").unwrap_or_else(|| "C06".into());
        let spec = spec_for(&of).expect("unknown property");
        let cases = arg_val(&args, "--cases").and_then(|s| s.parse().ok()).unwrap_or(20000);
        let mode = if args.iter().any(|a| a == "--all") { ppgcheck::chain::Mode::all() } else { ppgcheck::chain::Mode::for_prop(spec.prop) };
        let h = survey(&spec, cases, seed, threads, &mode);
        for (k, (n, ex)) in h.iter() {
            let exs: String = ex.chars().take(arg_val(&args, "--width").and_then(|s| s.parse().ok()).unwrap_or(300)).collect();
            println!("{:7} {}\n          {}", n, k, exs);
        }
        println!("{:.1}s", t0.elapsed().as_secs_f64());
        return;
    }
    let spec = match spec_for(&prop) {
        Some(s) => s,
        None => {
            eprintln!("unknown property {}", prop);
            std::process::exit(2);
        }
    };
    let known = KnownFindings::load();
    let mut agg = Agg::default();
    let mut violation: Option<(String, String, String)> = None; // (path, sig, detail)

    // ---- replay tier: saved (shrunk) scenarios of earlier findings / seeded changes
    let mut replayed = 0usize;
    for path in replay_files(&prop) {
        let rp = match load_replay(&path) {
            Ok(r) => r,
            Err(e) => {
                eprintln!("bad replay file: {}", e);
                std::process::exit(2);
            }
        };
        replayed += 1;
        if let Some((step, v)) = run_replay(&prop, &rp, &mut agg) {
            println!("replay {} shows {} at evaluation {}: {}", path.display(), v.sig(), step, v.detail);
            violation = Some((path.display().to_string(), v.sig(), v.detail));
            break;
        }
    }

    // ---- generated search
    let mut cases = if tier == "thorough" { spec.thorough_cases } else { spec.quick_cases };
    if let Some(c) = arg_val(&args, "--cases").and_then(|s| s.parse().ok()) {
        cases = c;
    }
    if violation.is_none() {
        let res = run_generated(&spec, cases, seed, threads, tier == "thorough");
        let replay_agg = std::mem::take(&mut agg);
        agg = res.agg;
        agg.cases += replay_agg.cases;
        agg.evals += replay_agg.evals;
        agg.main_evals += replay_agg.main_evals;
        agg.nontrivial.extend(replay_agg.nontrivial);
        for (k, v) in replay_agg.known_hits {
            *agg.known_hits.entry(k).or_insert(0) += v;
        }
        if let Some(rp) = res.violation {
            let path = write_replay(&rp);
            println!("violation {} at evaluation {}: {}", rp.signature, rp.step, rp.detail);
            violation = Some((path, rp.signature.clone(), rp.detail.clone()));
        }
    }

    let wall = t0.elapsed().as_secs_f64();
    for (k, n) in agg.known_hits.iter() {
        let f = &known.findings[*k];
        println!("KNOWN-FINDING: property={} {} (matched {} times)", f.property, f.what, n);
    }
    let mut coverage = serde_json::json!({
        "evaluations": agg.evals,
        "scenarios_generated": agg.cases,
        "main_chain_evaluations": agg.main_evals,
        "distinct_nontrivial": agg.nontrivial.len(),
        "nontrivial_total": agg.nontrivial_total,
        "rule": spec.rule,
        "samples": agg.samples,
        "classification": agg.counters,
        "replay_files_run": replayed,
        "known_finding_hits": agg.known_hits.iter().map(|(k, n)| (known.findings[*k].signature.clone(), *n)).collect::<std::collections::BTreeMap<_, _>>(),
        "violations_of_other_properties_seen": agg.foreign,
        "threads": threads,
        "exhaustive": false,
    });
    if agg.samples.is_empty() {
        coverage["samples"] = serde_json::json!(["(no non-trivial case in this run)"]);
    }
    let ev = serde_json::json!({
        "property_id": prop,
        "tier": tier,
        "seed": seed as i64,
        "level": spec.level,
        "coverage": coverage,
        "assumptions": spec.assumptions,
        "wall_s": wall,
        "violations": if violation.is_some() { 1 } else { 0 },
    });
    let _ = std::fs::create_dir_all(format!("{}/evidence", VERIF_DIR));
    std::fs::write(format!("{}/evidence/{}.json", VERIF_DIR, prop), serde_json::to_string_pretty(&ev).unwrap()).expect("cannot write evidence");
    println!(
        "{} {}: {} scenarios, {} evaluations, {} distinct non-trivial, {:.1}s",
        prop, tier, agg.cases, agg.evals, agg.nontrivial.len(), wall
    );
    if let Some((path, _sig, _d)) = violation {
        println!("VIOLATION property={} replay={}", prop, path);
        std::process::exit(1);
    }
}
