//! One evaluation of the simulated project against the real engine, with the
//! online monitors (C02, C05, C07, C10, C13, C17, C20 probes) and the event log the
//! post-hoc oracles consume.
use crate::scenario::*;
use crate::world::*;
use pypipegraph2::verif::{take_transitions, JobOutputResult, Snapshot, VerifStrategy};
use pypipegraph2::{JobKind, PPGEvaluator, PPGEvaluatorError, PPGEvaluatorStrategy, StrategyForTesting};
use std::cell::Cell;
use std::collections::{BTreeMap, BTreeSet, HashMap};
use std::rc::Rc;

#[derive(Clone, Debug, PartialEq, Eq)]
pub struct Violation {
    pub prop: &'static str,
    /// stable clause name; `prop/clause` is the violation signature
    pub clause: String,
    pub detail: String,
}

impl Violation {
    pub fn sig(&self) -> String {
        format!("{}/{}", self.prop, self.clause)
    }
}

#[derive(Clone, Copy, Debug, PartialEq, Eq, PartialOrd, Ord, Hash)]
pub enum Disp {
    ExecOk,
    ExecFailed,
    /// was running when the evaluation was aborted
    ExecAborted,
    Skipped,
    UpstreamFailed,
    /// never started, evaluation aborted
    Aborted,
    Other,
}

#[derive(Clone, Debug, Default)]
pub struct Opts {
    /// run the O(n) per step monitors (off for the big graphs of C19)
    pub monitors: bool,
    /// C20: try every illegal call on every job at every step
    pub probes: bool,
    /// big graphs (C19): perform up to this many enabled actions per loop iteration
    /// (acks, then starts, then finishes) instead of one chosen by the schedule; 0 = off
    pub batch: usize,
}

#[derive(Clone, Debug, Default)]
pub struct EvalOut {
    pub ids: BTreeMap<String, usize>,
    /// jobs the driver started
    pub executed: BTreeSet<String>,
    pub start_order: Vec<String>,
    pub succeeded: BTreeSet<String>,
    /// reported failed by the driver, failed through EphemeralChangedOutput, or running at abort
    pub failed: BTreeSet<String>,
    pub eco: BTreeSet<String>,
    pub running_at_abort: BTreeSet<String>,
    pub upstream_failed: BTreeSet<String>,
    pub aborted: bool,
    pub abort_reported_failed: bool,
    pub events: Vec<String>,
    pub violations: Vec<Violation>,
    /// the engine returned an internal / API error or panicked: nothing after it is trusted
    pub engine_error: Option<String>,
    pub new_history: Option<BTreeMap<String, String>>,
    pub final_states: BTreeMap<String, String>,
    pub disp: BTreeMap<String, Disp>,
    pub reported: BTreeMap<String, String>,
    /// job -> upstream id -> output of the upstream (engine's get_job_output) when the job was started
    pub consumed_at_start: BTreeMap<String, BTreeMap<String, String>>,
    pub offered_cleanup: BTreeSet<String>,
    pub acked: BTreeSet<String>,
    pub nactions: usize,
    pub transitions: Vec<(String, String, String)>,
    pub max_concurrency: usize,
    /// an up-to-date ephemeral was executed for a consumer
    pub on_demand: usize,
    /// comparisons consulted whose arguments differed textually but were judged unaltered
    pub noise_hits: usize,
    pub comparisons: usize,
    pub probes_done: usize,
    pub abort_ready: usize,
    pub abort_running: usize,
    /// records: what every job's current output is at the end (executed: reported; else ledger)
    pub cur: BTreeMap<String, String>,
    /// jobs that were skipped first and turned into an upstream failure later
    pub flipped: BTreeSet<String>,
    /// number of enabled driver actions at every step (for schedule enumeration)
    pub branching: Vec<u8>,
    /// transitions that the hook log did not report (seen through the snapshot instead)
    pub hook_log_gaps: usize,
    /// evaluated through the crate's own StrategyForTesting
    pub real_strategy: bool,
    pub pending_signal_sightings: usize,
}

impl EvalOut {
    pub fn clean(&self) -> bool {
        self.engine_error.is_none()
            && self.failed.is_empty()
            && self.upstream_failed.is_empty()
            && !self.aborted
            && self.eco.is_empty()
    }
    fn v(&mut self, prop: &'static str, clause: impl Into<String>, detail: impl Into<String>) {
        let v = Violation {
            prop,
            clause: clause.into(),
            detail: detail.into(),
        };
        // what the monitors saw must survive a later panic of the engine (the EvalOut is lost then)
        SEEN_BEFORE_PANIC.with(|p| p.borrow_mut().push(v.clone()));
        self.violations.push(v);
    }
}

thread_local! {
    static SEEN_BEFORE_PANIC: std::cell::RefCell<Vec<Violation>> = std::cell::RefCell::new(Vec::new());
}

/// State texts come from the hook as `<Debug text>#<flags>`; the flags are what the engine's own
/// predicates say (F finished, B failed/upstream-failed/aborted, U upstream-failed, A aborted). The
/// harness classifies by the flags and by the public queries, never by the names of the states.
fn flags(s: &str) -> &str {
    s.rsplit_once('#').map(|x| x.1).unwrap_or("")
}
pub fn is_fin(s: &str) -> bool {
    flags(s).contains('F')
}
pub fn is_bad(s: &str) -> bool {
    // (whatever `is_failed` covers: failed, upstream-failed or aborted)
    let f = flags(s);
    f.contains('B') || f.contains('U') || f.contains('A')
}
pub fn is_upfail(s: &str) -> bool {
    flags(s).contains('U')
}
pub fn is_aborted_state(s: &str) -> bool {
    flags(s).contains('A')
}
/// failed itself (not upstream-failed, not aborted)
pub fn is_own_failure(s: &str) -> bool {
    is_bad(s) && !is_upfail(s) && !is_aborted_state(s)
}
fn kind_of_state(s: &str) -> &str {
    s.split('(').next().unwrap_or("")
}

fn err_stem(m: &str) -> String {
    // message up to the first character that starts variable content
    let cut = m
        .find(|c: char| c == '{' || c == ':' || c == '\'' || c == '"' || c.is_ascii_digit() && false)
        .unwrap_or(m.len());
    let s: String = m[..cut].chars().take(60).collect();
    s.trim().to_string()
}

pub fn stem_of_error(e: &PPGEvaluatorError) -> (String, String) {
    match e {
        PPGEvaluatorError::InternalError(m) => {
            let mut stem = err_stem(m);
            if m.starts_with("unexpected was") {
                stem = m.split('N').next().unwrap_or(m).trim().chars().take(16).collect();
            }
            (format!("InternalError/{}", stem), m.clone())
        }
        PPGEvaluatorError::APIError(m) => (format!("APIError/{}", err_stem(m)), m.clone()),
        PPGEvaluatorError::EphemeralChangedOutput { job_id, .. } => {
            ("EphemeralChangedOutput".to_string(), job_id.clone())
        }
    }
}

fn permute<T>(v: &mut Vec<T>, stream: &[u8], off: usize) {
    if stream.is_empty() {
        return;
    }
    for i in (1..v.len()).rev() {
        let b = stream[(off + i) % stream.len()] as usize;
        let j = b * (i + 1) >> 8;
        v.swap(i, j);
    }
}

fn observable<S: PPGEvaluatorStrategy>(g: &mut PPGEvaluator<S>, ids: &BTreeMap<String, usize>) -> (Snapshot, Vec<String>, String, bool) {
    // the snapshot comes first: `is_finished()` takes `&mut self` and may itself change the
    // start status, which would hide a change made by the call under test
    let snap = g.verif_snapshot();
    let mut q: Vec<String> = vec![];
    for (name, set) in [
        ("ready", g.query_ready_to_run()),
        ("running", g.query_jobs_running()),
        ("cleanup", g.query_ready_for_cleanup()),
        ("failed", g.query_failed()),
        ("upfailed", g.query_upstream_failed()),
    ] {
        let mut v: Vec<String> = set.into_iter().collect();
        v.sort();
        q.push(format!("{}={:?}", name, v));
    }
    q.push(format!("next_is_some={}", g.next_job_ready_to_run().is_some()));
    for id in ids.keys() {
        q.push(match g.get_job_output(id) {
            JobOutputResult::Done(v) => format!("{}:Done({})", id, v),
            JobOutputResult::NotDone => format!("{}:NotDone", id),
            JobOutputResult::NoSuchJob => format!("{}:NoSuchJob", id),
        });
    }
    let dbg = g.debug_();
    let fin = g.is_finished();
    if fin {
        // in the final state the history is part of what can be observed
        let h = std::panic::catch_unwind(std::panic::AssertUnwindSafe(|| g.new_history()));
        q.push(match h {
            Ok(Ok(h)) => {
                let b: BTreeMap<String, String> = h.into_iter().collect();
                format!("history={:?}", b)
            }
            Ok(Err(e)) => format!("history=Err({})", stem_of_error(&e).0),
            Err(_) => "history=panic".to_string(),
        });
    }
    (snap, q, dbg, fin)
}

/// Run one evaluation. `w` is the world before the evaluation (history = input
/// history); it is updated in place (disk, ledger, evalno) but `w.history` is only
/// replaced by the caller.
pub fn run_eval(w: &mut World, plan: &Plan, sched: &Sched, opts: &Opts) -> EvalOut {
    w.evalno += 1;
    w.forget_superseded();
    let _ = take_transitions();
    let wr = Rc::new(w.clone());
    // files deleted in this step vanish between the declaration of the graph and event_startup
    w.deleted_in_step.clear();
    let declared = Rc::new(Cell::new(false));
    let noise_hits = Rc::new(Cell::new(0usize));
    let comparisons = Rc::new(Cell::new(0usize));
    let hist: HashMap<String, String> = w.history.iter().map(|(k, v)| (k.clone(), v.clone())).collect();
    if w.cfg.scope == crate::scenario::Scope::Whole && !w.cfg.stamps && w.cfg.names == crate::scenario::Names::JobIds {
        // this configuration is, by construction, the semantics of the crate's own `StrategyForTesting`
        // (records compared as strings, input names = sorted upstream job ids, presence = a set of ids):
        // run it through the real thing, so that src/lib.rs is part of what is checked
        let strat = StrategyForTesting::new();
        for s in w.active() {
            let id = w.id(s);
            if id.split(":::").all(|p| wr.disk.contains_key(p) || wr.deleted_in_step.contains(p)) {
                strat.already_done.borrow_mut().insert(id);
            }
        }
        let done = strat.already_done.clone();
        let wr2 = wr.clone();
        let at_startup = move || done.borrow_mut().retain(|id| id.split(":::").all(|p| wr2.disk.contains_key(p)));
        let g = PPGEvaluator::new_with_history(hist, strat);
        let mut res = run_eval_g(w, plan, sched, opts, g, &noise_hits, &comparisons, &at_startup);
        res.real_strategy = true;
        return res;
    }
    let present = {
        let wr = wr.clone();
        let declared = declared.clone();
        Rc::new(move |q: &str| q.split(":::").all(|p| wr.disk.contains_key(p) || (!declared.get() && wr.deleted_in_step.contains(p))))
    };
    let altered = {
        let wr = wr.clone();
        let nh = noise_hits.clone();
        let cc = comparisons.clone();
        Rc::new(move |u: &str, d: &str, last: &str, cur: &str| -> bool {
            let r = wr.altered(u, d, last, cur);
            cc.set(cc.get() + 1);
            if !r && last != cur {
                nh.set(nh.get() + 1);
            }
            r
        })
    };
    let input_list = {
        let wr = wr.clone();
        let idm = wr.id_map();
        Rc::new(move |j: &str, _ups: &[&str]| -> String {
            match idm.get(j) {
                Some(s) => wr.input_list(*s),
                None => "?unknown-job".to_string(),
            }
        })
    };
    let strat = VerifStrategy {
        present,
        altered,
        input_list,
    };
    let g = PPGEvaluator::new_with_history(hist, strat);
    let at_startup = move || declared.set(true);
    run_eval_g(w, plan, sched, opts, g, &noise_hits, &comparisons, &at_startup)
}

fn run_eval_g<S: PPGEvaluatorStrategy>(
    w: &mut World,
    plan: &Plan,
    sched: &Sched,
    opts: &Opts,
    mut g: PPGEvaluator<S>,
    noise_hits: &Rc<Cell<usize>>,
    comparisons: &Rc<Cell<usize>>,
    at_startup: &dyn Fn(),
) -> EvalOut {
    let mut res = EvalOut::default();
    let mut nodes = w.active();
    permute(&mut nodes, &sched.decl, 0);
    let ids: BTreeMap<String, usize> = w.id_map();
    res.ids = ids.clone();
    for s in nodes.iter() {
        let k = match w.kind(*s) {
            Kind::Always => JobKind::Always,
            Kind::Output => JobKind::Output,
            Kind::Ephemeral => JobKind::Ephemeral,
        };
        g.add_node(&w.id(*s), k);
    }
    let mut edges = vec![];
    for s in w.active() {
        for (u, _) in w.deps_of(s) {
            edges.push((s, u));
        }
    }
    permute(&mut edges, &sched.decl, 7);
    for (d, u) in edges.iter() {
        g.depends_on(&w.id(*d), &w.id(*u));
    }
    let useless = w.useless();
    let njobs = ids.len();

    // C20: the observable state before the driver call in progress (probes mode only)
    let mut probe_before: Option<(Snapshot, Vec<String>, String, bool)> = None;
    macro_rules! chk {
        ($e:expr, $what:expr) => {
            match $e {
                Ok(_) => true,
                Err(PPGEvaluatorError::EphemeralChangedOutput { job_id, .. }) => {
                    res.eco.insert(job_id.clone());
                    false
                }
                Err(e) => {
                    let (stem, msg) = stem_of_error(&e);
                    if let (Some(b), PPGEvaluatorError::APIError(_)) = (probe_before.take(), &e) {
                        // whatever the driver believed: a call the engine rejects as misuse
                        // must leave everything observable as it was
                        let after = observable(&mut g, &ids);
                        if after != b {
                            let what_changed = if after.0 != b.0 { "snapshot" } else if after.1 != b.1 { "queries" } else { "debug" };
                            res.v("C20", format!("rejected-driver-call/state-changed/{}", $what), format!("{} ({} differs)", msg, what_changed));
                        }
                    }
                    res.engine_error = Some(format!("{} {}", $what, msg));
                    if let PPGEvaluatorError::APIError(_) = &e {
                        // the driver only starts what is reported ready, finishes what is reported running and
                        // acknowledges what is reported ready for cleanup: a refusal contradicts the report
                        res.v("C17", format!("reported-set-contradicted-by-refusal/{}", $what), format!("{}: {}", $what, msg));
                    }
                    res.v("C05", format!("evaluation-cannot-finish/legal-call-refused/{}", stem), format!("{}: {}", $what, msg));
                    res.v("C06", stem, format!("{}: {}", $what, msg));
                    res.transitions.extend(take_transitions());
                    res.noise_hits = noise_hits.get();
                    res.comparisons = comparisons.get();
                    return res;
                }
            }
        };
    }

    PHASE.with(|p| p.set("run"));
    at_startup();
    chk!(g.event_startup(), "event_startup");
    let mut started: BTreeSet<String> = BTreeSet::new();
    let mut running: Vec<String> = vec![];
    // values produced in this evaluation by Always / Ephemeral jobs (temp store)
    let mut fresh: BTreeMap<String, u64> = BTreeMap::new();
    let mut temp_alive: BTreeSet<String> = BTreeSet::new();
    let mut offered_cleanup: BTreeSet<String> = BTreeSet::new();
    let mut acked: BTreeSet<String> = BTreeSet::new();
    let mut ever_ready: BTreeSet<String> = BTreeSet::new();
    let mut nactions = 0usize;
    let mut cur_rec: BTreeMap<String, String> = BTreeMap::new();
    let mut states_seen: BTreeMap<String, String> = BTreeMap::new();
    let mut offers_in_log: BTreeMap<String, usize> = BTreeMap::new();
    let was_finished = false;
    let bound = 4 * njobs + 8;
    loop {
        // ---- transition log (C17, includes the intermediate states inside one call)
        let trans = take_transitions();
        // what the jobs looked like when this call began, and what happened inside it, in order: the
        // cleanup clauses speak about the moment of the offer, which may be in the middle of a call
        let states_before_call = if opts.monitors { states_seen.clone() } else { BTreeMap::new() };
        let trans_this_call: Vec<(String, String, String)> = if opts.monitors { trans.clone() } else { vec![] };
        for (j, from, to) in trans.iter() {
            if opts.monitors {
                lifecycle_step(&mut res, j, from, to, &mut offers_in_log);
                if let Some(prev) = states_seen.get(j) {
                    if prev != from {
                        // the hook log missed a transition (a state assigned without the macro):
                        // that is a property of the instrumentation, not of C17 - resynchronise
                        res.hook_log_gaps += 1;
                    }
                }
            }
            if to == "Pruned" {
                // (the next snapshot says what a pruned job looks like)
                states_seen.remove(j);
            } else {
                states_seen.insert(j.clone(), to.clone());
            }
        }
        res.transitions.extend(trans);

        let fin = g.is_finished();
        let ready: BTreeSet<String> = g.query_ready_to_run().into_iter().collect();
        let eng_running: BTreeSet<String> = g.query_jobs_running().into_iter().collect();
        let cleanup: BTreeSet<String> = g.query_ready_for_cleanup().into_iter().collect();
        let my_running: BTreeSet<String> = running.iter().cloned().collect();
        res.max_concurrency = res.max_concurrency.max(running.len());
        if !opts.monitors {
            for c in cleanup.iter() {
                offered_cleanup.insert(c.clone());
            }
            for j in ready.iter() {
                ever_ready.insert(j.clone());
            }
        }
        if opts.monitors {
            let snap0 = g.verif_snapshot();
            let st: BTreeMap<&str, &str> = snap0.jobs.iter().map(|x| (x.0.as_str(), x.1.as_str())).collect();
            let eng_failed: BTreeSet<String> = g.query_failed().into_iter().collect();
            let eng_upfailed: BTreeSet<String> = g.query_upstream_failed().into_iter().collect();
            // ---- C13 (abort points are not in its domain: after an abort only C10 and C17 speak)
            for c in cleanup.iter() {
                if res.aborted {
                    break;
                }
                if acked.contains(c) {
                    res.v("C13", "offered-again-after-ack", c.clone());
                }
                if !offered_cleanup.contains(c) {
                    match ids.get(c) {
                        Some(cs) if w.kind(*cs) == Kind::Ephemeral => {
                            if !res.succeeded.contains(c) {
                                res.v("C13", "offered-but-not-executed-successfully", c.clone());
                            }
                            // the moment of the offer: the last transition of `c` inside this call
                            let pos = trans_this_call.iter().rposition(|t| t.0 == *c);
                            for d in w.consumers_of(*cs) {
                                let did = w.id(d);
                                let at_offer: Option<String> = pos.map(|p| {
                                    let mut s = states_before_call.get(&did).cloned().unwrap_or_default();
                                    for t in trans_this_call[..=p].iter() {
                                        if t.0 == did {
                                            s = t.2.clone();
                                        }
                                    }
                                    s
                                });
                                let ds_owned = match at_offer {
                                    // (a consumer that was pruned is finished and not failed: it was never needed)
                                    Some(s) if s == "Pruned" => "pruned#F---".to_string(),
                                    // (no state known yet for a job that has not moved since start-up: look at it now)
                                    Some(s) if !s.is_empty() => s,
                                    _ => st.get(did.as_str()).cloned().unwrap_or("").to_string(),
                                };
                                let ds = ds_owned.as_str();
                                if !is_fin(ds) {
                                    res.v("C13", "offered-before-downstream-finished", format!("{} while {} is {}", c, did, ds));
                                } else if is_bad(ds) {
                                    res.v("C13", "offered-though-downstream-failed", format!("{} while {} is {}", c, did, ds));
                                }
                            }
                        }
                        _ => {
                            res.v("C13", "offered-non-ephemeral", c.clone());
                        }
                    }
                }
                offered_cleanup.insert(c.clone());
            }
            for c in offered_cleanup.iter() {
                if !res.aborted && !acked.contains(c) && !cleanup.contains(c) {
                    res.v("C13", "offer-withdrawn", c.clone());
                }
            }
            // ---- C17 cross consistency
            for (j, s_) in st.iter() {
                // "finished" (the engine's own predicate) against the sets it reports
                if is_fin(s_) && ready.contains(*j) {
                    res.v("C17", "ready-set-vs-state", format!("{} is {} but ready=true", j, s_));
                }
                if is_fin(s_) && eng_running.contains(*j) {
                    res.v("C17", "running-set-vs-state", format!("{} is {} but reported running", j, s_));
                }
                if cleanup.contains(*j) && (!is_fin(s_) || is_bad(s_)) {
                    res.v("C17", "cleanup-set-vs-state", format!("{} is {} but offered for cleanup", j, s_));
                }
                let resync = match states_seen.get(*j) {
                    Some(seen) if seen != s_ => Some(seen.clone()),
                    Some(_) => None,
                    None => {
                        states_seen.insert(j.to_string(), s_.to_string());
                        None
                    }
                };
                if let Some(seen) = resync {
                    // a transition the hook log did not see: judge it like a logged one
                    res.hook_log_gaps += 1;
                    lifecycle_step(&mut res, j, &seen, s_, &mut offers_in_log);
                    states_seen.insert(j.to_string(), s_.to_string());
                }
            }
            match g.next_job_ready_to_run() {
                Some(j) => {
                    if !ready.contains(&j) {
                        res.v("C17", "next-job-not-in-ready-set", j);
                    }
                }
                None => {
                    if !ready.is_empty() {
                        res.v("C17", "next-job-none-but-ready-set-nonempty", format!("{:?}", ready));
                    }
                }
            }
            if eng_running != my_running {
                res.v("C17", "running-vs-driver", format!("engine {:?} driver {:?}", eng_running, my_running));
            }
            {
                // failed == reported failed (+ ECO); jobs running at an abort without report may be either
                let must: BTreeSet<String> = res.failed.iter().filter(|j| !res.running_at_abort.contains(*j) || res.abort_reported_failed).cloned().collect();
                if !must.is_subset(&eng_failed) || !eng_failed.is_subset(&res.failed) {
                    res.v("C17", "failed-vs-driver", format!("engine {:?} driver {:?}", eng_failed, res.failed));
                }
            }
            for j in eng_upfailed.iter() {
                if started.contains(j) {
                    res.v("C07", "started-job-upstream-failed", j.clone());
                }
            }
            for j in ready.iter() {
                if started.contains(j) {
                    res.v("C05", "offered-after-started", j.clone());
                }
                if eng_running.contains(j) || eng_failed.contains(j) || eng_upfailed.contains(j) {
                    res.v("C17", "ready-overlaps-other-set", j.clone());
                }
            }
            let all_fin = st.values().all(|s| is_fin(s));
            if all_fin != fin {
                res.v("C17", "is_finished-vs-states", format!("is_finished={} all states finished={}", fin, all_fin));
            }
            if was_finished && !fin {
                res.v("C17", "finished-then-unfinished", "");
            }
            if snap0.pending_signals != 0 {
                // internal bookkeeping, not a clause of C17: counted, not reported
                res.pending_signal_sightings += 1;
            }
            // ---- C07 online: blocked jobs are never offered
            {
                let mut blocked: BTreeSet<usize> = BTreeSet::new();
                for d in w.active() {
                    let did = w.id(d);
                    if started.contains(&did) {
                        continue;
                    }
                    for (u, _) in w.deps_of(d) {
                        let uid = w.id(u);
                        if res.failed.contains(&uid) || blocked.contains(&u) {
                            blocked.insert(d);
                        }
                    }
                }
                for b in blocked.iter() {
                    let bid = w.id(*b);
                    if ready.contains(&bid) {
                        res.v("C07", "blocked-job-offered", bid);
                    }
                }
            }
            // ---- C02: every input of an offered (or running) job is materialised
            // (the statement speaks about jobs on offer; what happens to the inputs of a job that is
            // already running is C13's business)
            for j in ready.iter() {
                let first_offer = ready.contains(j) && !ever_ready.contains(j);
                let s = match ids.get(j) {
                    Some(s) => *s,
                    None => continue,
                };
                for (u, _) in w.deps_of(s) {
                    let uid = w.id(u);
                    let ust = st.get(uid.as_str()).cloned().unwrap_or("");
                    if !is_fin(ust) {
                        res.v("C02", "upstream-not-finished", format!("{} offered/running while {} is {}", j, uid, ust));
                        continue;
                    }
                    // (a skipped upstream may still be turned into an upstream failure while
                    // the consumer runs; the statement speaks about the moment of the offer)
                    if is_bad(ust) && ready.contains(j) {
                        res.v("C02", "upstream-failed", format!("{} offered while {} is {}", j, uid, ust));
                        continue;
                    }
                    match w.kind(u) {
                        Kind::Ephemeral => {
                            if !res.succeeded.contains(&uid) {
                                let via = res.transitions.iter().rev().find(|t| t.0 == uid).map(|t| format!("{}->{}", t.1, t.2)).unwrap_or_default();
                                res.v("C02", "ephemeral-input-not-executed", format!("{} offered/running, {} is {} (last transition {})", j, uid, ust, via));
                            } else if offered_cleanup.contains(&uid) || !temp_alive.contains(&uid) {
                                res.v("C02", "ephemeral-input-already-offered-for-cleanup", format!("{} offered/running, {} is {}", j, uid, ust));
                            }
                        }
                        Kind::Output => {
                            if !w.outputs_present(u) {
                                res.v("C02", "output-input-missing", format!("{} offered/running, files of {} missing ({})", j, uid, ust));
                            }
                        }
                        Kind::Always => {
                            if !res.succeeded.contains(&uid) {
                                res.v("C02", "always-input-not-executed", format!("{} offered/running, {} is {}", j, uid, ust));
                            }
                        }
                    }
                    if first_offer {
                        match g.get_job_output(&uid) {
                            JobOutputResult::Done(v) => {
                                // "current": what the upstream reported in this evaluation, or - if it
                                // was skipped - what it is recorded to have produced
                                // (exactly what it reported; for a skipped upstream any text the
                                // configured comparison judges unaltered against its record)
                                let wrong = match (cur_rec.get(&uid), w.history.get(&uid)) {
                                    (Some(e), _) => *e != v,
                                    (None, Some(e)) => *e != v && w.altered(&uid, "!!!", e, &v),
                                    _ => false,
                                };
                                let expect = cur_rec.get(&uid).or_else(|| w.history.get(&uid));
                                if let Some(e) = expect {
                                    if wrong {
                                        res.v("C02", "reported-output-of-upstream-is-not-its-current-one", format!("{} offered, get_job_output({}) = {} but its current output is {}", j, uid, v, e));
                                    }
                                }
                            }
                            _ => {
                                res.v("C02", "no-current-output-for-upstream", format!("{} offered, get_job_output({}) not Done", j, uid));
                            }
                        }
                    }
                }
            }
            for j in ready.iter() {
                ever_ready.insert(j.clone());
            }
        }
        if fin {
            if !ready.is_empty() || !eng_running.is_empty() {
                res.v("C05", "finished-but-ready-or-running", format!("ready {:?} running {:?}", ready, eng_running));
            }
            if !running.is_empty() {
                res.v("C17", "finished-while-driver-has-running-jobs", format!("{:?}", running));
                if !res.aborted {
                    res.v("C05", "finished-while-started-jobs-have-not-reported-back", format!("{:?}", running));
                }
            }
            break;
        }
        if res.aborted {
            break;
        }
        let startable: Vec<String> = ready.iter().filter(|j| !started.contains(*j)).cloned().collect();
        if !fin && startable.is_empty() && running.is_empty() {
            let unfinished: Vec<String> = g
                .verif_snapshot()
                .jobs
                .iter()
                .filter(|x| !is_fin(&x.1))
                .map(|x| format!("{}:{}", x.0, x.1))
                .collect();
            res.v("C05", "stall", format!("not finished, nothing ready or running; unfinished: {:?}", unfinished));
            res.engine_error = Some("stall".into());
            break;
        }
        if fin {
            // engine says finished while the driver still has running jobs
            res.v("C17", "finished-while-driver-has-running-jobs", format!("{:?}", running));
            break;
        }
        // ---- abort point
        if let Some((k, style)) = plan.abort {
            if nactions >= k as usize {
                res.abort_ready = startable.len();
                res.abort_running = running.len();
                res.abort_reported_failed = style;
                PHASE.with(|p| p.set("abort"));
                for j in running.clone() {
                    res.running_at_abort.insert(j.clone());
                    let s = ids[&j];
                    leave_failed_output(w, s, &j, plan.fail_mode);
                    w.ledger.entry(j.clone()).or_default().failed_since = true;
                    res.failed.insert(j.clone());
                    if style {
                        res.events.push(format!("fail-at-abort {}", j));
                        let r = g.event_job_finished_failure(&j);
                        if let Err(e) = &r {
                            let (stem, msg) = stem_of_error(e);
                            res.v("C10", format!("reporting-running-job-failed-before-abort/{}", stem), msg);
                        }
                        chk!(r, "event_job_finished_failure(at abort)");
                    }
                }
                running.clear();
                res.events.push("abort".into());
                res.aborted = true;
                let r = g.abort_remaining();
                if let Err(e) = &r {
                    let (stem, msg) = stem_of_error(e);
                    res.v("C10", format!("abort_remaining-returned-error/{}", stem), msg);
                }
                chk!(r, "abort_remaining");
                let fin = g.is_finished();
                let ready: BTreeSet<String> = g.query_ready_to_run().into_iter().collect();
                let eng_running: BTreeSet<String> = g.query_jobs_running().into_iter().collect();
                if !fin {
                    res.v("C10", "not-finished-after-abort", "");
                }
                if !ready.is_empty() {
                    let newly: Vec<&String> = ready.iter().filter(|j| !ever_ready.contains(*j)).collect();
                    if opts.monitors && !newly.is_empty() {
                        res.v("C10", "new-job-offered-after-abort", format!("{:?}", newly));
                    } else {
                        res.v("C10", "ready-nonempty-after-abort", format!("{:?}", ready));
                    }
                }
                if !eng_running.is_empty() {
                    res.v("C10", "running-nonempty-after-abort", format!("{:?}", eng_running));
                }
                // one more round of the monitors (C17 consistency after the abort), then out
                continue;
            }
        }
        // ---- C20 probes
        if opts.probes {
            probe_round(&mut g, &ids, &ready, &my_running, &cleanup, &mut res, "");
            if res.engine_error.is_some() {
                break;
            }
        }
        // ---- choose the next driver action
        let mut actions: Vec<(u8, String)> = vec![];
        for j in my_running.iter() {
            actions.push((1, j.clone()));
        }
        if sched.ack_mode != 2 {
            for c in cleanup.iter() {
                actions.push((2, c.clone()));
            }
        }
        if opts.batch > 0 || running.len() < (sched.max_running.max(1) as usize) {
            for j in startable.iter() {
                actions.push((0, j.clone()));
            }
        }
        if sched.ack_mode == 0 && !cleanup.is_empty() {
            actions.retain(|a| a.0 == 2);
        }
        if actions.is_empty() {
            // can only happen if nothing is running, nothing startable (handled above)
            res.v("C05", "no-enabled-action", "");
            res.engine_error = Some("no action".into());
            break;
        }
        let todo: Vec<(u8, String)> = if opts.batch > 0 {
            let mut t: Vec<(u8, String)> = vec![];
            t.extend(actions.iter().filter(|a| a.0 == 2).cloned());
            t.extend(actions.iter().filter(|a| a.0 == 0).cloned());
            if t.is_empty() {
                t.extend(actions.iter().filter(|a| a.0 == 1).cloned());
            }
            t.truncate(opts.batch);
            t
        } else {
            let byte = sched.choices.get(nactions).cloned().unwrap_or(0) as usize;
            res.branching.push(actions.len().min(255) as u8);
            if sched.exact {
                vec![actions[byte.min(actions.len() - 1)].clone()]
            } else {
                vec![actions[byte * actions.len() >> 8].clone()]
            }
        };
        for (a, j) in todo {
        nactions += 1;
        probe_before = if opts.probes { Some(observable(&mut g, &ids)) } else { None };
        match a {
            0 => {
                res.events.push(format!("start {}", j));
                {
                    let s0 = ids[&j];
                    let mut m = BTreeMap::new();
                    for (u, _) in w.deps_of(s0) {
                        let uid = w.id(u);
                        if let JobOutputResult::Done(v) = g.get_job_output(&uid) {
                            m.insert(uid, v);
                        }
                    }
                    res.consumed_at_start.insert(j.clone(), m);
                    if w.kind(s0) == Kind::Ephemeral {
                        if let Some(st) = states_seen.get(&j) {
                            if st.contains("ReadyToRun(Validated)") {
                                res.on_demand += 1;
                            }
                        }
                    }
                }
                chk!(g.event_now_running(&j), "event_now_running");
                started.insert(j.clone());
                running.push(j.clone());
                res.executed.insert(j.clone());
                res.start_order.push(j.clone());
            }
            1 => {
                running.retain(|x| *x != j);
                let s = ids[&j];
                if plan.fails(s) {
                    res.events.push(format!("fail {}", j));
                    leave_failed_output(w, s, &j, plan.fail_mode);
                    w.ledger.entry(j.clone()).or_default().failed_since = true;
                    res.failed.insert(j.clone());
                    chk!(g.event_job_finished_failure(&j), "event_job_finished_failure");
                } else {
                    let mut inputs = BTreeMap::new();
                    for (u, n, _) in w.consumed_names(s) {
                        let v = match w.kind(u) {
                            Kind::Output => w.disk.get(&n).cloned(),
                            _ => fresh.get(&n).cloned(),
                        };
                        if let Some(v) = v {
                            inputs.insert(n, v);
                        }
                    }
                    let mut contents = BTreeMap::new();
                    for p in parts_of(w.parts(s)) {
                        contents.insert(part_name(s, p), w.compute(s, p, &inputs));
                    }
                    for (n, v) in contents.iter() {
                        match w.kind(s) {
                            Kind::Output => {
                                w.disk.insert(n.clone(), *v);
                                w.disk_writer.insert(n.clone(), (j.clone(), w.evalno, true));
                            }
                            _ => {
                                fresh.insert(n.clone(), *v);
                            }
                        }
                    }
                    if w.kind(s) == Kind::Ephemeral {
                        temp_alive.insert(j.clone());
                        if w.defs[s].flaky {
                            w.tainted = true;
                        }
                    }
                    let rec = w.record(s, &contents);
                    let mut cons = BTreeMap::new();
                    for (u, _) in w.deps_of(s) {
                        let uid = w.id(u);
                        let c = match cur_rec.get(&uid) {
                            Some(c) => c.clone(),
                            None => w.ledger.get(&uid).map(|l| l.produced.clone()).unwrap_or_default(),
                        };
                        cons.insert(u, c);
                    }
                    res.events.push(format!("ok {} {}", j, rec));
                    res.reported.insert(j.clone(), rec.clone());
                    let old_ledger = w.ledger.get(&j).cloned();
                    w.ledger.insert(
                        j.clone(),
                        Ledger {
                            input_list: w.input_list(s),
                            consumed: cons,
                            produced: rec.clone(),
                            failed_since: false,
                            has_success: true,
                        },
                    );
                    cur_rec.insert(j.clone(), rec.clone());
                    if chk!(g.event_job_finished_success(&j, rec), "event_job_finished_success") {
                        res.succeeded.insert(j.clone());
                    } else {
                        // EphemeralChangedOutput: the engine treats the job as failed
                        res.failed.insert(j.clone());
                        cur_rec.remove(&j);
                        let mut l = old_ledger.unwrap_or_default();
                        l.failed_since = true;
                        w.ledger.insert(j.clone(), l);
                    }
                }
            }
            _ => {
                res.events.push(format!("ack {}", j));
                chk!(g.event_job_cleanup_done(&j), "event_job_cleanup_done");
                acked.insert(j.clone());
                temp_alive.remove(&j);
                if let Some(s) = ids.get(&j) {
                    for p in parts_of(w.parts(*s)) {
                        fresh.remove(&part_name(*s, p));
                    }
                }
            }
        }
        }
        if nactions > bound + opts.batch {
            res.v("C05", "step-bound-exceeded", format!("{} driver actions for {} jobs", nactions, njobs));
            res.engine_error = Some("step bound".into());
            break;
        }
    }
    if opts.probes && res.engine_error.is_none() {
        // once more in the final state (finished normally or aborted)
        let _ = g.is_finished();
        let ready: BTreeSet<String> = g.query_ready_to_run().into_iter().collect();
        let cleanup: BTreeSet<String> = g.query_ready_for_cleanup().into_iter().collect();
        let none: BTreeSet<String> = BTreeSet::new();
        probe_round(&mut g, &ids, &ready, &none, &cleanup, &mut res, "after-finish/");
    }
    res.nactions = nactions;
    res.noise_hits = noise_hits.get();
    res.comparisons = comparisons.get();
    res.upstream_failed = g.query_upstream_failed().into_iter().collect();
    res.offered_cleanup = offered_cleanup;
    res.acked = acked;
    let snap: Snapshot = g.verif_snapshot();
    for (j, st, _) in snap.jobs.iter() {
        res.final_states.insert(j.clone(), st.clone());
        // what happened to the job is taken from what the driver did; the engine's state only
        // tells the never-started jobs apart
        let d = if res.running_at_abort.contains(j) {
            Disp::ExecAborted
        } else if res.succeeded.contains(j) {
            Disp::ExecOk
        } else if res.failed.contains(j) {
            Disp::ExecFailed
        } else if is_upfail(st) || res.upstream_failed.contains(j) {
            Disp::UpstreamFailed
        } else if is_fin(st) && !is_bad(st) {
            Disp::Skipped
        } else if is_aborted_state(st) || (res.aborted && !res.executed.contains(j)) {
            // never started, the evaluation was aborted (whatever the engine calls its state)
            Disp::Aborted
        } else {
            Disp::Other
        };
        res.disp.insert(j.clone(), d);
    }
    for (id, _s) in ids.iter() {
        if let Some(c) = cur_rec.get(id) {
            res.cur.insert(id.clone(), c.clone());
        } else if let Some(l) = w.ledger.get(id) {
            if l.has_success {
                res.cur.insert(id.clone(), l.produced.clone());
            }
        }
    }
    let _ = useless;
    if res.engine_error.is_none() {
        if !g.is_finished() {
            res.v("C05", "not-finished-at-end", "");
            res.engine_error = Some("not finished".into());
            return res;
        }
        PHASE.with(|p| p.set(if res.aborted { "new_history-after-abort" } else { "new_history" }));
        match g.new_history() {
            Ok(h) => {
                res.new_history = Some(h.into_iter().collect());
            }
            Err(e) => {
                let (stem, msg) = stem_of_error(&e);
                let clause = if res.aborted { format!("new_history-after-abort/{}", stem) } else { format!("new_history/{}", stem) };
                if res.aborted {
                    res.v("C10", clause.clone(), msg.clone());
                }
                res.v("C06", clause, msg.clone());
                res.engine_error = Some(format!("new_history {}", msg));
            }
        }
    }
    res
}

/// C17 lifecycle clauses for one state transition of one job
fn lifecycle_step(res: &mut EvalOut, j: &str, from: &str, to: &str, offers: &mut BTreeMap<String, usize>) {
    if to != "Pruned" && kind_of_state(from) != kind_of_state(to) {
        res.v("C17", "kind-changed", format!("{} {} -> {}", j, from, to));
    }
    if is_fin(from) && !(is_fin(to) || to == "Pruned") {
        res.v("C17", "finished-became-unfinished", format!("{} {} -> {}", j, from, to));
    }
    // "a job reported as executed successfully never becomes failed or upstream-failed"
    if is_fin(from) && !is_bad(from) && res.succeeded.contains(j) && is_bad(to) {
        res.v("C17", "success-became-something-else", format!("{} {} -> {}", j, from, to));
    }
    if to.contains("ReadyToRun") && !from.contains("ReadyToRun") {
        let c = offers.entry(j.to_string()).or_insert(0);
        *c += 1;
        if *c > 1 {
            res.v("C17", "offered-twice", format!("{} {} -> {}", j, from, to));
        }
    }
    // skipped (finished, not bad, never started) and then reached by an upstream failure
    if is_fin(from) && !is_bad(from) && !res.executed.contains(j) && is_upfail(to) {
        res.flipped.insert(j.to_string());
    }
}

fn leave_failed_output(w: &mut World, s: usize, j: &str, fail_mode: u8) {
    if w.kind(s) != Kind::Output {
        return;
    }
    for p in parts_of(w.parts(s)) {
        let n = part_name(s, p);
        match fail_mode {
            0 => {
                w.disk.insert(n.clone(), GARBAGE + w.evalno as u64);
                w.disk_writer.insert(n, (j.to_string(), w.evalno, false));
            }
            1 => {
                w.disk.remove(&n);
                w.disk_writer.remove(&n);
            }
            _ => {}
        }
    }
}


/// C20: every illegal call on every known job (and a second event_startup) must be
/// rejected with an API error and leave everything observable unchanged
fn probe_round<S: PPGEvaluatorStrategy>(
    g: &mut PPGEvaluator<S>,
    ids: &BTreeMap<String, usize>,
    ready: &BTreeSet<String>,
    my_running: &BTreeSet<String>,
    cleanup: &BTreeSet<String>,
    res: &mut EvalOut,
    phase: &str,
) {
    use std::panic::{catch_unwind, AssertUnwindSafe};
    let all_ids: Vec<String> = ids.keys().cloned().collect();
    let mut before = observable(g, ids);
    let mut calls: Vec<(&str, Option<String>)> = vec![];
    for jid in all_ids.iter() {
        if !ready.contains(jid) {
            calls.push(("start-not-offered", Some(jid.clone())));
        } else if before.3 || before.0.jobs.iter().any(|x| x.0 == *jid && is_fin(&x.1)) {
            // listed as ready although the job (or the whole evaluation) is already finished:
            // starting it is misuse under any reading
            calls.push(("start-finished-job", Some(jid.clone())));
        }
        if !my_running.contains(jid) {
            calls.push(("success-not-running", Some(jid.clone())));
            calls.push(("failure-not-running", Some(jid.clone())));
        }
        if !cleanup.contains(jid) {
            calls.push(("cleanup-not-offered", Some(jid.clone())));
        }
    }
    calls.push(("startup-twice", None));
    for (what, jid) in calls {
        let j = jid.clone().unwrap_or_default();
        let r = catch_unwind(AssertUnwindSafe(|| match what {
            "start-not-offered" | "start-finished-job" => g.event_now_running(&j),
            "success-not-running" => g.event_job_finished_success(&j, "bogus=0".into()),
            "failure-not-running" => g.event_job_finished_failure(&j),
            "cleanup-not-offered" => g.event_job_cleanup_done(&j),
            _ => g.event_startup(),
        }));
        res.probes_done += 1;
        let st = before.0.jobs.iter().find(|x| x.0 == j).map(|x| x.1.clone()).unwrap_or_default();
        match r {
            Ok(Err(PPGEvaluatorError::APIError(_))) => {}
            Ok(other) => {
                res.v("C20", format!("{}{}/not-rejected", phase, what), format!("{} in {} -> {:?}", j, st, other.map_err(|e| stem_of_error(&e).0)));
            }
            Err(_) => {
                let msg = LAST_PANIC.with(|p| p.borrow().clone());
                res.v("C20", format!("{}{}/panicked", phase, what), format!("{} in {}: {}", j, st, msg));
                res.engine_error = Some(format!("panic in illegal call: {}", msg));
                let _ = take_transitions();
                return;
            }
        }
        let after = observable(g, ids);
        if after != before {
            res.v("C20", format!("{}{}/state-changed", phase, what), format!("{} in {}", j, st));
            before = after;
        }
        let _ = take_transitions();
    }
}

thread_local! {
    /// which part of the protocol the driver is in (read by `safe_eval` when the engine panics)
    pub static PHASE: Cell<&'static str> = Cell::new("run");
    pub static LAST_PANIC: std::cell::RefCell<String> = std::cell::RefCell::new(String::new());
}

pub fn install_panic_hook() {
    std::panic::set_hook(Box::new(|info| {
        let msg = if let Some(s) = info.payload().downcast_ref::<String>() {
            s.clone()
        } else if let Some(s) = info.payload().downcast_ref::<&str>() {
            s.to_string()
        } else {
            "?".to_string()
        };
        let loc = info.location().map(|l| format!("{}:{}", l.file(), l.line())).unwrap_or_default();
        if std::env::var("PPG_PANIC_VERBOSE").is_ok() {
            eprintln!("panic: {} @ {}", msg, loc);
        }
        LAST_PANIC.with(|p| *p.borrow_mut() = format!("{} @ {}", msg, loc));
    }));
}

/// run_eval guarded against panics of the engine (C06); a panic inside the harness
/// itself (not under /repo) is re-raised.
pub fn safe_eval(w: &mut World, plan: &Plan, sched: &Sched, opts: &Opts) -> EvalOut {
    let mut w2 = w.clone();
    SEEN_BEFORE_PANIC.with(|p| p.borrow_mut().clear());
    let r = std::panic::catch_unwind(std::panic::AssertUnwindSafe(|| {
        let out = run_eval(&mut w2, plan, sched, opts);
        (w2, out)
    }));
    match r {
        Ok((w2, out)) => {
            *w = w2;
            out
        }
        Err(e) => {
            let _ = take_transitions();
            let msg = LAST_PANIC.with(|p| p.borrow().clone());
            if !(msg.contains("/repo/") || msg.contains("src/engine.rs") || msg.contains("src/lib.rs") || msg.contains("src/verif.rs")) || msg.contains("harness/src") {
                // a bug of the harness: never report it as a violation
                std::panic::resume_unwind(e);
            }
            let mut out = EvalOut::default();
            out.violations = SEEN_BEFORE_PANIC.with(|p| std::mem::take(&mut *p.borrow_mut()));
            let stem: String = msg.split('@').next().unwrap_or("").chars().take(50).collect();
            out.engine_error = Some(format!("panic {}", msg));
            let phase = PHASE.with(|p| p.get());
            if phase == "abort" || phase == "new_history-after-abort" {
                out.violations.push(Violation { prop: "C10", clause: format!("panic-during-{}/{}", phase, stem.trim()), detail: msg.clone() });
            }
            if phase == "run" || phase == "abort" {
                out.violations.push(Violation { prop: "C05", clause: format!("evaluation-cannot-finish/panic/{}", stem.trim()), detail: msg.clone() });
            }
            out.violations.push(Violation {
                prop: "C06",
                clause: format!("panic/{}", stem.trim()),
                detail: msg,
            });
            out
        }
    }
}
